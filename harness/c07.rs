//! C07 — register API behaves like the x86-64 register file. One-step induction: from an
//! arbitrary register file satisfying the representation invariant (exactly the 17 64-bit
//! keys present), one API call with an arbitrary register (all 86 variants), an arbitrary
//! value and each width is compared with an independent reference register file.
#[cfg(not(kani))]
use crate::verif::shim as kani;

use crate::axecutor::Axecutor;
use crate::state::registers::SupportedRegister::{self, *};
use crate::verif::util::*;

/// (index of the 64-bit parent in REG17, width in bits, high byte?) — written from the
/// architecture manual, independent of the crate's REGISTER_TO_QWORD table.
fn ref_view(r: SupportedRegister) -> Option<(usize, u32, bool)> {
    Some(match r {
        RIP => (0, 64, false),
        RAX => (1, 64, false),
        RBX => (2, 64, false),
        RCX => (3, 64, false),
        RDX => (4, 64, false),
        RSI => (5, 64, false),
        RDI => (6, 64, false),
        RSP => (7, 64, false),
        RBP => (8, 64, false),
        R8 => (9, 64, false),
        R9 => (10, 64, false),
        R10 => (11, 64, false),
        R11 => (12, 64, false),
        R12 => (13, 64, false),
        R13 => (14, 64, false),
        R14 => (15, 64, false),
        R15 => (16, 64, false),
        EAX => (1, 32, false),
        EBX => (2, 32, false),
        ECX => (3, 32, false),
        EDX => (4, 32, false),
        ESI => (5, 32, false),
        EDI => (6, 32, false),
        ESP => (7, 32, false),
        EBP => (8, 32, false),
        R8D => (9, 32, false),
        R9D => (10, 32, false),
        R10D => (11, 32, false),
        R11D => (12, 32, false),
        R12D => (13, 32, false),
        R13D => (14, 32, false),
        R14D => (15, 32, false),
        R15D => (16, 32, false),
        AX => (1, 16, false),
        BX => (2, 16, false),
        CX => (3, 16, false),
        DX => (4, 16, false),
        SI => (5, 16, false),
        DI => (6, 16, false),
        SP => (7, 16, false),
        BP => (8, 16, false),
        R8W => (9, 16, false),
        R9W => (10, 16, false),
        R10W => (11, 16, false),
        R11W => (12, 16, false),
        R12W => (13, 16, false),
        R13W => (14, 16, false),
        R14W => (15, 16, false),
        R15W => (16, 16, false),
        AL => (1, 8, false),
        BL => (2, 8, false),
        CL => (3, 8, false),
        DL => (4, 8, false),
        AH => (1, 8, true),
        BH => (2, 8, true),
        CH => (3, 8, true),
        DH => (4, 8, true),
        SIL => (5, 8, false),
        DIL => (6, 8, false),
        SPL => (7, 8, false),
        BPL => (8, 8, false),
        R8L => (9, 8, false),
        R9L => (10, 8, false),
        R10L => (11, 8, false),
        R11L => (12, 8, false),
        R12L => (13, 8, false),
        R13L => (14, 8, false),
        R14L => (15, 8, false),
        R15L => (16, 8, false),
        // EIP is not a view of a general-purpose register; XMM registers are 128-bit
        _ => return None,
    })
}

fn is_xmm(r: SupportedRegister) -> Option<usize> {
    let i = r as usize;
    if i >= XMM0 as usize && i <= XMM15 as usize {
        Some(i - XMM0 as usize)
    } else {
        None
    }
}

pub(crate) fn any_reg() -> SupportedRegister {
    let d: u8 = kani::any::<u8>();
    kani::assume(d <= XMM15 as u8);
    // SAFETY: SupportedRegister is a fieldless enum with discriminants 0..=85
    unsafe { std::mem::transmute::<u8, SupportedRegister>(d) }
}

fn ref_write(s: &Snap, reg: SupportedRegister, w: u32, v: u64) -> Option<Snap> {
    let (p, vw, hi) = ref_view(reg)?;
    if vw != w {
        return None;
    }
    if w < 64 && (v >> w) != 0 {
        return None;
    }
    let mut n = *s;
    let old = s.r[p];
    n.r[p] = match (w, hi) {
        (64, _) => v,
        (32, _) => v,
        (16, _) => (old & !0xffffu64) | v,
        (8, false) => (old & !0xffu64) | v,
        (8, true) => (old & !0xff00u64) | (v << 8),
        _ => unreachable!(),
    };
    Some(n)
}

fn ref_read(s: &Snap, reg: SupportedRegister, w: u32) -> Option<u64> {
    let (p, vw, hi) = ref_view(reg)?;
    if vw != w {
        return None;
    }
    let val = s.r[p];
    Some(match (w, hi) {
        (64, _) => val,
        (32, _) => val & 0xffff_ffff,
        (16, _) => val & 0xffff,
        (8, false) => val & 0xff,
        (8, true) => (val >> 8) & 0xff,
        _ => unreachable!(),
    })
}

fn invariant(ax: &Axecutor) -> bool {
    ax.state.registers.len() == 17 && ax.state.xmm_registers.len() == 16
}

// @harness id=c07_write8 props=C07 crash=C07 tier=quick
#[cfg_attr(kani, kani::proof)]
#[cfg_attr(kani, kani::unwind(90))]
#[cfg_attr(kani, kani::stub(alloc::fmt::format, crate::verif::util::stub_format))]
pub(crate) fn c07_write8() {
    let mut ax = mk_ax();
    let s0 = snap(&ax);
    let reg = any_reg();
    let v: u64 = kani::any::<u64>();
    let r = ax.reg_write_8(reg, v);
    let s1 = snap(&ax);
    match ref_write(&s0, reg, 8, v) {
        Some(n) => {
            vcheck!("C07|write8|accepts_valid", r.is_ok());
            vcheck!("C07|write8|state_after_write", s1 == n);
        }
        None => {
            vcheck!("C07|write8|rejects_invalid", r.is_err());
            vcheck!("C07|write8|reject_leaves_state", s1 == s0);
        }
    }
    vcheck!("C07|write8|invariant", invariant(&ax));
    vreach!("C07|write8|reach_ok", r.is_ok());
    vreach!("C07|write8|reach_err", r.is_err());
}

// @harness id=c07_write16 props=C07 crash=C07 tier=quick
#[cfg_attr(kani, kani::proof)]
#[cfg_attr(kani, kani::unwind(90))]
#[cfg_attr(kani, kani::stub(alloc::fmt::format, crate::verif::util::stub_format))]
pub(crate) fn c07_write16() {
    let mut ax = mk_ax();
    let s0 = snap(&ax);
    let reg = any_reg();
    let v: u64 = kani::any::<u64>();
    let r = ax.reg_write_16(reg, v);
    let s1 = snap(&ax);
    match ref_write(&s0, reg, 16, v) {
        Some(n) => {
            vcheck!("C07|write16|accepts_valid", r.is_ok());
            vcheck!("C07|write16|state_after_write", s1 == n);
        }
        None => {
            vcheck!("C07|write16|rejects_invalid", r.is_err());
            vcheck!("C07|write16|reject_leaves_state", s1 == s0);
        }
    }
    vcheck!("C07|write16|invariant", invariant(&ax));
    vreach!("C07|write16|reach_ok", r.is_ok());
    vreach!("C07|write16|reach_err", r.is_err());
}

// @harness id=c07_write32 props=C07 crash=C07 tier=quick
#[cfg_attr(kani, kani::proof)]
#[cfg_attr(kani, kani::unwind(90))]
#[cfg_attr(kani, kani::stub(alloc::fmt::format, crate::verif::util::stub_format))]
pub(crate) fn c07_write32() {
    let mut ax = mk_ax();
    let s0 = snap(&ax);
    let reg = any_reg();
    let v: u64 = kani::any::<u64>();
    let r = ax.reg_write_32(reg, v);
    let s1 = snap(&ax);
    match ref_write(&s0, reg, 32, v) {
        Some(n) => {
            vcheck!("C07|write32|accepts_valid", r.is_ok());
            vcheck!("C07|write32|state_after_write", s1 == n);
        }
        None => {
            vcheck!("C07|write32|rejects_invalid", r.is_err());
            vcheck!("C07|write32|reject_leaves_state", s1 == s0);
        }
    }
    vcheck!("C07|write32|invariant", invariant(&ax));
    vreach!("C07|write32|reach_ok", r.is_ok());
    vreach!("C07|write32|reach_err", r.is_err());
}

// @harness id=c07_write64 props=C07 crash=C07 tier=quick
#[cfg_attr(kani, kani::proof)]
#[cfg_attr(kani, kani::unwind(90))]
#[cfg_attr(kani, kani::stub(alloc::fmt::format, crate::verif::util::stub_format))]
pub(crate) fn c07_write64() {
    let mut ax = mk_ax();
    let s0 = snap(&ax);
    let reg = any_reg();
    let v: u64 = kani::any::<u64>();
    let r = ax.reg_write_64(reg, v);
    let s1 = snap(&ax);
    match ref_write(&s0, reg, 64, v) {
        Some(n) => {
            vcheck!("C07|write64|accepts_valid", r.is_ok());
            vcheck!("C07|write64|state_after_write", s1 == n);
        }
        None => {
            vcheck!("C07|write64|rejects_invalid", r.is_err());
            vcheck!("C07|write64|reject_leaves_state", s1 == s0);
        }
    }
    vcheck!("C07|write64|invariant", invariant(&ax));
    vreach!("C07|write64|reach_ok", r.is_ok());
    vreach!("C07|write64|reach_err", r.is_err());
}

// @harness id=c07_read props=C07 crash=C07 tier=quick
#[cfg_attr(kani, kani::proof)]
#[cfg_attr(kani, kani::unwind(90))]
#[cfg_attr(kani, kani::stub(alloc::fmt::format, crate::verif::util::stub_format))]
pub(crate) fn c07_read() {
    let ax = mk_ax();
    let s0 = snap(&ax);
    let reg = any_reg();
    let r8 = ax.reg_read_8(reg);
    let r16 = ax.reg_read_16(reg);
    let r32 = ax.reg_read_32(reg);
    let r64 = ax.reg_read_64(reg);
    vcheck!("C07|read8|value_or_reject", r8.ok() == ref_read(&s0, reg, 8));
    vcheck!("C07|read16|value_or_reject", r16.ok() == ref_read(&s0, reg, 16));
    vcheck!("C07|read32|value_or_reject", r32.ok() == ref_read(&s0, reg, 32));
    vcheck!("C07|read64|value_or_reject", r64.ok() == ref_read(&s0, reg, 64));
    vcheck!("C07|read|state_unchanged", snap(&ax) == s0);
    vreach!("C07|read|reach_hi8", ref_view(reg) == Some((2, 8, true)));
    vreach!("C07|read|reach_eip", reg == EIP);
}

// @harness id=c07_read128 props=C07 crash=C07 tier=quick
#[cfg_attr(kani, kani::proof)]
#[cfg_attr(kani, kani::unwind(90))]
#[cfg_attr(kani, kani::stub(alloc::fmt::format, crate::verif::util::stub_format))]
pub(crate) fn c07_read128() {
    let ax = mk_ax_n(4);
    let s0 = snap(&ax);
    let reg = any_reg();
    let rd = ax.reg_read_128(reg);
    match is_xmm(reg) {
        Some(i) => {
            vcheck!("C07|read128|value", rd.ok() == Some(s0.x[i]));
        }
        None => {
            vcheck!("C07|read128|rejects_non_xmm", rd.is_err());
        }
    }
    vcheck!("C07|read128|state_unchanged", snap(&ax) == s0);
    vreach!("C07|read128|reach_xmm", is_xmm(reg).is_some());
    vreach!("C07|read128|reach_gpr", is_xmm(reg).is_none());
}

// @harness id=c07_write128 props=C07 crash=C07 tier=thorough timeout=1500
#[cfg_attr(kani, kani::proof)]
#[cfg_attr(kani, kani::unwind(90))]
#[cfg_attr(kani, kani::stub(alloc::fmt::format, crate::verif::util::stub_format))]
pub(crate) fn c07_write128() {
    let mut ax = mk_ax_n(4);
    let s0 = snap(&ax);
    // The register id is made concrete per call site (86 guarded calls, one per id): a store
    // of a 128-bit value through `slots[symbolic index]` of the model map is very slow.
    let sel: usize = kani::any::<usize>();
    kani::assume(sel < 86);
    let v: u128 = kani::any::<u128>();
    let mut wr = Ok(());
    let mut reg = RIP;
    let mut k = 0usize;
    while k < 86 {
        if sel == k {
            // SAFETY: SupportedRegister is a fieldless enum with discriminants 0..=85
            reg = unsafe { std::mem::transmute::<u8, SupportedRegister>(k as u8) };
            wr = ax.reg_write_128(reg, v);
        }
        k += 1;
    }
    let s1 = snap(&ax);
    let target = is_xmm(reg);
    vcheck!("C07|write128|accepts_exactly_xmm", wr.is_ok() == target.is_some());
    // element-wise, with a concrete loop index (no symbolic-index update of a 128-bit array)
    let mut j = 0;
    while j < 16 {
        let want = if target == Some(j) { v } else { s0.x[j] };
        vcheck!("C07|write128|xmm_state_after_write", s1.x[j] == want);
        j += 1;
    }
    let mut j = 0;
    while j < 17 {
        vcheck!("C07|write128|gprs_untouched", s1.r[j] == s0.r[j]);
        j += 1;
    }
    vcheck!("C07|write128|flags_segments_untouched", s1.rflags == s0.rflags && s1.fs == s0.fs && s1.gs == s0.gs);
    vcheck!("C07|write128|invariant", invariant(&ax));
    vreach!("C07|write128|reach_xmm", wr.is_ok() && reg as usize == XMM7 as usize);
    vreach!("C07|write128|reach_gpr", wr.is_err());
}

// @harness id=c07_write128_sel props=C07 crash=C07 tier=quick
#[cfg_attr(kani, kani::proof)]
#[cfg_attr(kani, kani::unwind(90))]
#[cfg_attr(kani, kani::stub(alloc::fmt::format, crate::verif::util::stub_format))]
pub(crate) fn c07_write128_sel() {
    let mut ax = mk_ax_n(4);
    let s0 = snap(&ax);
    // The register id is made concrete per call site (86 guarded calls, one per id): a store
    // of a 128-bit value through `slots[symbolic index]` of the model map is very slow.
    // quick tier: the id ranges over six representative registers (the thorough harness
    // c07_write128 ranges over all 86)
    const PICK: [usize; 6] = [0, 1, 17, 50, 70, 85]; // RIP, RAX, EIP, AH, XMM0, XMM15
    let p: usize = kani::any::<usize>();
    kani::assume(p < 6);
    let sel: usize = PICK[p];
    let v: u128 = kani::any::<u128>();
    let mut wr = Ok(());
    let mut reg = RIP;
    let mut k = 0usize;
    while k < 86 {
        if sel == k && (k == 0 || k == 1 || k == 17 || k == 50 || k == 70 || k == 85) {
            // SAFETY: SupportedRegister is a fieldless enum with discriminants 0..=85
            reg = unsafe { std::mem::transmute::<u8, SupportedRegister>(k as u8) };
            wr = ax.reg_write_128(reg, v);
        }
        k += 1;
    }
    let s1 = snap(&ax);
    let target = is_xmm(reg);
    vcheck!("C07|write128|accepts_exactly_xmm", wr.is_ok() == target.is_some());
    // element-wise, with a concrete loop index (no symbolic-index update of a 128-bit array)
    let mut j = 0;
    while j < 16 {
        let want = if target == Some(j) { v } else { s0.x[j] };
        vcheck!("C07|write128|xmm_state_after_write", s1.x[j] == want);
        j += 1;
    }
    let mut j = 0;
    while j < 17 {
        vcheck!("C07|write128|gprs_untouched", s1.r[j] == s0.r[j]);
        j += 1;
    }
    vcheck!("C07|write128|flags_segments_untouched", s1.rflags == s0.rflags && s1.fs == s0.fs && s1.gs == s0.gs);
    vcheck!("C07|write128|invariant", invariant(&ax));
    vreach!("C07|write128|reach_xmm", wr.is_ok() && reg as usize == XMM15 as usize);
    vreach!("C07|write128|reach_gpr", wr.is_err());
}

// Base case of the induction: the constructor's register sets satisfy the invariant, the
// GPRs hold 32-bit values (what the constructor promises) and REG17 is in discriminant order.
// @harness id=c07_base props=C07 crash=C07 tier=quick
#[cfg_attr(kani, kani::proof)]
#[cfg_attr(kani, kani::unwind(90))]
#[cfg_attr(kani, kani::stub(alloc::fmt::format, crate::verif::util::stub_format))]
pub(crate) fn c07_base() {
    let ax = Axecutor::empty();
    vcheck!("C07|base|invariant", invariant(&ax));
    let mut i = 0;
    while i < 17 {
        vcheck!("C07|base|reg17_order", REG17[i] as usize == i);
        vcheck!(
            "C07|base|all_keys_present",
            ax.state.registers.get(&REG17[i]).is_some()
        );
        i += 1;
    }
    let mut i = 0;
    while i < 16 {
        vcheck!(
            "C07|base|all_xmm_present",
            ax.state.xmm_registers.get(&XMMS[i]).is_some()
        );
        i += 1;
    }
    vreach!("C07|base|reach");
}

// Two-step history: a write through one view followed by a read through another view of an
// arbitrary register agrees with the reference file (redundant given the induction, kept as
// a cross-check of it).
// @harness id=c07_write_then_read props=C07 crash=C07 tier=thorough
#[cfg_attr(kani, kani::proof)]
#[cfg_attr(kani, kani::unwind(90))]
#[cfg_attr(kani, kani::stub(alloc::fmt::format, crate::verif::util::stub_format))]
pub(crate) fn c07_write_then_read() {
    let mut ax = mk_ax();
    let s0 = snap(&ax);
    let wreg = any_reg();
    let rreg = any_reg();
    let v: u64 = kani::any::<u64>();
    let ww: u8 = kani::any::<u8>();
    kani::assume(ww < 4);
    let (w, r) = match ww {
        0 => (8, ax.reg_write_8(wreg, v)),
        1 => (16, ax.reg_write_16(wreg, v)),
        2 => (32, ax.reg_write_32(wreg, v)),
        _ => (64, ax.reg_write_64(wreg, v)),
    };
    let model = match ref_write(&s0, wreg, w, v) {
        Some(n) => n,
        None => s0,
    };
    vcheck!("C07|seq|read8_after_write", ax.reg_read_8(rreg).ok() == ref_read(&model, rreg, 8));
    vcheck!("C07|seq|read16_after_write", ax.reg_read_16(rreg).ok() == ref_read(&model, rreg, 16));
    vcheck!("C07|seq|read32_after_write", ax.reg_read_32(rreg).ok() == ref_read(&model, rreg, 32));
    vcheck!("C07|seq|read64_after_write", ax.reg_read_64(rreg).ok() == ref_read(&model, rreg, 64));
    vreach!("C07|seq|reach_alias", r.is_ok() && ref_view(wreg).map(|x| x.0) == ref_view(rreg).map(|x| x.0) && wreg != rreg);
}
