//! Shared harness plumbing: symbolic machine construction, stubs, a one-poll executor.
#[cfg(not(kani))]
use crate::verif::shim as kani;

#[cfg(kani)]
pub(crate) use crate::helpers::vmap::HashMap;
#[cfg(not(kani))]
pub(crate) use std::collections::HashMap;

use crate::axecutor::{Axecutor, MachineState};
use crate::helpers::errors::AxError;
use crate::helpers::syscalls::SyscallState;
use crate::state::hooks::HookProcessor;
use crate::state::memory::MemoryArea;
use crate::state::registers::SupportedRegister::{self, *};
use iced_x86::{Code, Instruction, OpKind, Register};

pub(crate) const GPR64: [SupportedRegister; 16] = [
    RAX, RBX, RCX, RDX, RSI, RDI, RSP, RBP, R8, R9, R10, R11, R12, R13, R14, R15,
];
pub(crate) const REG17: [SupportedRegister; 17] = [
    RIP, RAX, RBX, RCX, RDX, RSI, RDI, RSP, RBP, R8, R9, R10, R11, R12, R13, R14, R15,
];
pub(crate) const XMMS: [SupportedRegister; 16] = [
    XMM0, XMM1, XMM2, XMM3, XMM4, XMM5, XMM6, XMM7, XMM8, XMM9, XMM10, XMM11, XMM12, XMM13,
    XMM14, XMM15,
];

/// Snapshot of the architectural register state, used for frame conditions.
#[derive(Clone, Copy)]
pub(crate) struct Snap {
    pub r: [u64; 17],
    pub x: [u128; 16],
    pub rflags: u64,
    pub fs: u64,
    pub gs: u64,
}

/// Field-wise comparison with explicit loops (a derived `==` on the arrays is a memcmp whose
/// trip count is the byte length and would need a much larger unwind bound).
impl PartialEq for Snap {
    fn eq(&self, o: &Snap) -> bool {
        let mut ok = self.rflags == o.rflags && self.fs == o.fs && self.gs == o.gs;
        let mut i = 0;
        while i < 17 {
            ok &= self.r[i] == o.r[i];
            i += 1;
        }
        let mut i = 0;
        while i < 16 {
            ok &= self.x[i] == o.x[i];
            i += 1;
        }
        ok
    }
}

/// Force the crate's lazy_static tables now, unconditionally, so that their `Once` state is
/// a concrete COMPLETE for the rest of the harness (initialising them under a symbolic path
/// condition makes every later access re-run the initialiser symbolically).
pub(crate) fn force_tables() {
    use crate::state::registers::*;
    let a = REGISTER_TO_QWORD.len();
    let b = HIGHER_BYTE_REGISTERS.contains(&AH);
    let c = XMM_REGISTERS.len() + NATURAL_REGISTER_ORDER.len() + GENERAL_PURPOSE_REGISTERS.len();
    assert!(a == 68 && b && c == 16 + 17 + 16);
}

pub(crate) fn ridx(r: SupportedRegister) -> usize {
    r as usize // RIP = 0, RAX = 1, ... R15 = 16 (checked by c07_base)
}

pub(crate) fn snap(ax: &Axecutor) -> Snap {
    let mut r = [0u64; 17];
    let mut i = 0;
    while i < 17 {
        r[i] = *ax.state.registers.get(&REG17[i]).unwrap();
        i += 1;
    }
    let mut x = [0u128; 16];
    let mut i = 0;
    while i < 16 {
        x[i] = *ax.state.xmm_registers.get(&XMMS[i]).unwrap();
        i += 1;
    }
    Snap {
        r,
        x,
        rflags: ax.state.rflags,
        fs: ax.state.fs,
        gs: ax.state.gs,
    }
}

/// A machine with every architectural register, flag and segment base symbolic, no memory,
/// no hooks, not finished. The first `nxmm` XMM registers are symbolic, the rest hold distinct constants.
pub(crate) fn mk_ax_n(nxmm: usize) -> Axecutor {
    force_tables();
    let mut registers: HashMap<SupportedRegister, u64> = HashMap::new();
    let mut i = 0;
    while i < 17 {
        registers.insert(REG17[i], kani::any::<u64>());
        i += 1;
    }
    let mut xmm: HashMap<SupportedRegister, u128> = HashMap::new();
    let mut i = 0;
    while i < 16 {
        // the non-symbolic ones hold distinct constants so that a mixed-up slot is still visible
        let v: u128 = if i < nxmm { kani::any::<u128>() } else { 0x5a5a_0000_0000_1000u128 + i as u128 };
        xmm.insert(XMMS[i], v);
        i += 1;
    }
    Axecutor {
        stack_top: 0,
        code_end_addr: 0,
        hooks: HookProcessor::default(),
        symbol_table: HashMap::new(),
        state: MachineState {
            // capacity reserved up front: a push that reallocates makes the buffer pointer a case
            // split over all the reallocation sites, which explodes the formula
            memory: Vec::with_capacity(8),
            registers,
            xmm_registers: xmm,
            // bits 0..=21 of RFLAGS (every defined flag and the reserved bits among them) are arbitrary;
            // bits 22..=63 are reserved-zero in the architecture and no emulator path sets them
            rflags: kani::any::<u64>() & 0x3f_ffff,
            fs: kani::any::<u64>(),
            gs: kani::any::<u64>(),
            finished: false,
            executed_instructions_count: 0,
            max_instructions: None,
            syscalls: SyscallState::default(),
            call_stack: Vec::with_capacity(8),
            trace: Vec::with_capacity(8),
        },
    }
}

/// A machine with empty register maps (for harnesses that never touch registers).
pub(crate) fn mk_ax_bare() -> Axecutor {
    Axecutor {
        stack_top: 0,
        code_end_addr: 0,
        hooks: HookProcessor::default(),
        symbol_table: HashMap::new(),
        state: MachineState {
            // capacity reserved up front: a push that reallocates makes the buffer pointer a case
            // split over all the reallocation sites, which explodes the formula
            memory: Vec::with_capacity(8),
            registers: HashMap::new(),
            xmm_registers: HashMap::new(),
            rflags: 0,
            fs: 0,
            gs: 0,
            finished: false,
            executed_instructions_count: 0,
            max_instructions: None,
            syscalls: SyscallState::default(),
            call_stack: Vec::with_capacity(8),
            trace: Vec::with_capacity(8),
        },
    }
}

pub(crate) fn mk_ax() -> Axecutor {
    mk_ax_n(2)
}

/// Symbolic byte vector of a concrete length.
pub(crate) fn sym_bytes(n: usize) -> Vec<u8> {
    let mut v = Vec::with_capacity(n);
    let mut i = 0;
    while i < n {
        v.push(kani::any::<u8>());
        i += 1;
    }
    v
}

pub(crate) fn push_area(ax: &mut Axecutor, start: u64, data: Vec<u8>, access: u32) {
    let len = data.len() as u64;
    ax.state
        .memory
        .push(MemoryArea::verif_new(None, start, len, data, access));
}

pub(crate) fn area_count(ax: &Axecutor) -> usize {
    ax.state.memory.len()
}

// ---------------------------------------------------------------------------------------
// Stubs (cfg(kani) only; natively the real functions run)
// ---------------------------------------------------------------------------------------
pub(crate) fn stub_format(_a: std::fmt::Arguments<'_>) -> String {
    String::new()
}
pub(crate) fn stub_mem_hints(_ax: &Axecutor, _a: u64, _l: u64, _o: String) -> AxError {
    AxError::from("mem")
}
pub(crate) fn stub_axerror_fmt(_e: &AxError, _f: &mut std::fmt::Formatter<'_>) -> std::fmt::Result {
    Ok(())
}
pub(crate) fn stub_from_box_error(_e: Box<dyn std::error::Error>) -> AxError {
    AxError::from("hook error")
}
pub(crate) fn stub_lower(_s: &str) -> String {
    String::new()
}
pub(crate) fn stub_instr_fmt(
    _i: &Instruction,
    _f: &mut std::fmt::Formatter<'_>,
) -> std::fmt::Result {
    Ok(())
}
pub(crate) fn stub_code_fmt(_i: &Code, _f: &mut std::fmt::Formatter<'_>) -> std::fmt::Result {
    Ok(())
}
pub(crate) fn stub_mnemonic_fmt(
    _i: &iced_x86::Mnemonic,
    _f: &mut std::fmt::Formatter<'_>,
) -> std::fmt::Result {
    Ok(())
}
pub(crate) fn stub_register_fmt(
    _i: &Register,
    _f: &mut std::fmt::Formatter<'_>,
) -> std::fmt::Result {
    Ok(())
}
pub(crate) fn stub_opkind_fmt(
    _i: &OpKind,
    _f: &mut std::fmt::Formatter<'_>,
) -> std::fmt::Result {
    Ok(())
}

/// One-poll executor: the crate's `async fn`s never suspend on native targets.
pub(crate) fn block_on<F: std::future::Future>(f: F) -> F::Output {
    let mut f = std::pin::pin!(f);
    let w = std::task::Waker::noop();
    let mut cx = std::task::Context::from_waker(&w);
    match f.as_mut().poll(&mut cx) {
        std::task::Poll::Ready(v) => v,
        std::task::Poll::Pending => panic!("verif: future was pending"),
    }
}
