//! Reference semantics of the implemented x86-64 instruction forms, written from the Intel
//! SDM / AMD APM and independent of the code under verification. `exec` maps (decoded fields,
//! operation class, architectural pre-state) to the architectural post-state, a fault flag,
//! and the masks of flags the architecture defines / leaves undefined for these operands.
//! Used as the right-hand side of the solver's assertions (and natively in replays).
use crate::verif::ib::Fields;
use iced_x86::{OpKind, Register};

pub(crate) const DLEN: usize = 32;
pub(crate) const DBASE: u64 = 0x4000_0000;

pub(crate) const CF: u64 = 0x1;
pub(crate) const PF: u64 = 0x4;
pub(crate) const AF: u64 = 0x10;
pub(crate) const ZF: u64 = 0x40;
pub(crate) const SF: u64 = 0x80;
pub(crate) const DF: u64 = 0x400;
pub(crate) const OF: u64 = 0x800;
pub(crate) const STATUS: u64 = CF | PF | AF | ZF | SF | OF;

#[derive(Clone, Copy)]
pub(crate) struct Mach {
    /// RIP, RAX, RBX, RCX, RDX, RSI, RDI, RSP, RBP, R8..R15
    pub r: [u64; 17],
    pub x: [u128; 16],
    pub rflags: u64,
    pub fs: u64,
    pub gs: u64,
    pub mem: [u8; DLEN],
    pub mem_on: bool,
    pub mem_acc: u32,
}

pub(crate) const RIP_I: usize = 0;
pub(crate) const RAX_I: usize = 1;
pub(crate) const RBX_I: usize = 2;
pub(crate) const RCX_I: usize = 3;
pub(crate) const RDX_I: usize = 4;
pub(crate) const RSP_I: usize = 7;

#[derive(Clone, Copy, PartialEq, Eq)]
pub(crate) enum Op {
    Add,
    Adc,
    Sub,
    Cmp,
    And,
    Xor,
    Test,
    Inc,
    Dec,
    Neg,
    Not,
    Shl,
    Shr,
    Mul,
    Imul1,
    Imul2,
    Imul3,
    Div,
    Idiv,
    /// only the fault condition of DIV / IDIV (no divider circuit in the formula)
    DivFault,
    IdivFault,
    Mov,
    Movzx,
    Movsxd,
    Lea,
    Cmov,
    Set,
    Cdq,
    Cdqe,
    Cqo,
    Cwd,
    Cld,
    Nop,
    Cpuid,
    MovdToXmm,
    MovdFromXmm,
    Movups,
    Xorps,
    Push,
    Pop,
    CallRel,
    CallRm,
    Ret,
    JmpRel,
    JmpRm,
    Jcc,
    Jrcxz,
    Jecxz,
    /// not modelled: only crash-freedom is checked
    Other,
}

pub(crate) struct Out {
    pub fault: bool,
    pub m: Mach,
    /// flags whose post value must equal `m.rflags`
    pub def: u64,
    /// flags the architecture leaves undefined here (any value accepted)
    pub undef: u64,
    /// registers (bit i = r[i]) whose value is CPU-specific and not compared (CPUID)
    pub any_regs: u32,
    /// no comparison at all (form not modelled)
    pub skip: bool,
    /// only error-vs-fault is compared (values are the subject of a sibling harness)
    pub fault_only: bool,
    /// control transfers: the branch is taken (always true for JMP/CALL/RET)
    pub taken: bool,
}

// ---------------------------------------------------------------------------------------
// register file
// ---------------------------------------------------------------------------------------
/// (index in Mach::r, width, high byte) of a general-purpose register view or RIP
pub(crate) fn gpr(reg: Register) -> Option<(usize, u32, bool)> {
    use Register::*;
    Some(match reg {
        RIP => (0, 64, false),
        RAX => (1, 64, false), RBX => (2, 64, false), RCX => (3, 64, false), RDX => (4, 64, false),
        RSI => (5, 64, false), RDI => (6, 64, false), RSP => (7, 64, false), RBP => (8, 64, false),
        R8 => (9, 64, false), R9 => (10, 64, false), R10 => (11, 64, false), R11 => (12, 64, false),
        R12 => (13, 64, false), R13 => (14, 64, false), R14 => (15, 64, false), R15 => (16, 64, false),
        EAX => (1, 32, false), EBX => (2, 32, false), ECX => (3, 32, false), EDX => (4, 32, false),
        ESI => (5, 32, false), EDI => (6, 32, false), ESP => (7, 32, false), EBP => (8, 32, false),
        R8D => (9, 32, false), R9D => (10, 32, false), R10D => (11, 32, false), R11D => (12, 32, false),
        R12D => (13, 32, false), R13D => (14, 32, false), R14D => (15, 32, false), R15D => (16, 32, false),
        AX => (1, 16, false), BX => (2, 16, false), CX => (3, 16, false), DX => (4, 16, false),
        SI => (5, 16, false), DI => (6, 16, false), SP => (7, 16, false), BP => (8, 16, false),
        R8W => (9, 16, false), R9W => (10, 16, false), R10W => (11, 16, false), R11W => (12, 16, false),
        R12W => (13, 16, false), R13W => (14, 16, false), R14W => (15, 16, false), R15W => (16, 16, false),
        AL => (1, 8, false), BL => (2, 8, false), CL => (3, 8, false), DL => (4, 8, false),
        AH => (1, 8, true), BH => (2, 8, true), CH => (3, 8, true), DH => (4, 8, true),
        SIL => (5, 8, false), DIL => (6, 8, false), SPL => (7, 8, false), BPL => (8, 8, false),
        R8L => (9, 8, false), R9L => (10, 8, false), R10L => (11, 8, false), R11L => (12, 8, false),
        R12L => (13, 8, false), R13L => (14, 8, false), R14L => (15, 8, false), R15L => (16, 8, false),
        _ => return Option::None,
    })
}

pub(crate) fn xmm(reg: Register) -> Option<usize> {
    use Register::*;
    Some(match reg {
        XMM0 => 0, XMM1 => 1, XMM2 => 2, XMM3 => 3, XMM4 => 4, XMM5 => 5, XMM6 => 6, XMM7 => 7,
        XMM8 => 8, XMM9 => 9, XMM10 => 10, XMM11 => 11, XMM12 => 12, XMM13 => 13, XMM14 => 14, XMM15 => 15,
        _ => return Option::None,
    })
}

fn mask(w: u32) -> u128 {
    if w >= 128 {
        u128::MAX
    } else {
        (1u128 << w) - 1
    }
}

fn rd_reg(m: &Mach, reg: Register) -> Option<u128> {
    if let Some(i) = xmm(reg) {
        return Some(m.x[i]);
    }
    let (i, w, hi) = gpr(reg)?;
    let v = m.r[i];
    Some(if hi { ((v >> 8) & 0xff) as u128 } else { (v as u128) & mask(w) })
}

fn wr_reg(m: &mut Mach, reg: Register, val: u128) -> bool {
    if let Some(i) = xmm(reg) {
        m.x[i] = val;
        return true;
    }
    let (i, w, hi) = match gpr(reg) {
        Some(t) => t,
        None => return false,
    };
    let old = m.r[i];
    let v = val as u64;
    m.r[i] = match (w, hi) {
        (64, _) => v,
        (32, _) => v & 0xffff_ffff,
        (16, _) => (old & !0xffff) | (v & 0xffff),
        (8, false) => (old & !0xff) | (v & 0xff),
        _ => (old & !0xff00) | ((v & 0xff) << 8),
    };
    true
}

// ---------------------------------------------------------------------------------------
// memory (one area D of DLEN bytes at DBASE)
// ---------------------------------------------------------------------------------------
pub(crate) fn in_d(m: &Mach, addr: u64, n: usize) -> Option<usize> {
    if !m.mem_on || addr < DBASE {
        return None;
    }
    let off = addr - DBASE;
    if off < DLEN as u64 && (n as u64) <= DLEN as u64 - off {
        Some(off as usize)
    } else {
        None
    }
}

fn rd_mem(m: &Mach, addr: u64, n: usize) -> Option<u128> {
    let off = in_d(m, addr, n)?;
    if m.mem_acc & 1 == 0 {
        return None;
    }
    let mut v: u128 = 0;
    let mut i = 0;
    while i < 16 {
        if i < n {
            v |= (m.mem[off + i] as u128) << (8 * i);
        }
        i += 1;
    }
    Some(v)
}

fn wr_mem(m: &mut Mach, addr: u64, n: usize, val: u128) -> bool {
    let off = match in_d(m, addr, n) {
        Some(o) => o,
        None => return false,
    };
    if m.mem_acc & 2 == 0 {
        return false;
    }
    let mut i = 0;
    while i < 16 {
        if i < n {
            m.mem[off + i] = (val >> (8 * i)) as u8;
        }
        i += 1;
    }
    true
}

/// Effective address of the memory operand as the CPU computes it (64-bit mode).
pub(crate) fn ea(f: &Fields, m: &Mach) -> Option<u64> {
    use Register::*;
    let mut addr32 = false;
    let mut a: u64 = 0;
    match f.base {
        None => {}
        // iced folds RIP/EIP into the displacement
        RIP => {}
        EIP => addr32 = true,
        b => {
            let (i, w, _) = gpr(b)?;
            if w == 32 {
                addr32 = true;
                a = a.wrapping_add(m.r[i] & 0xffff_ffff);
            } else if w == 64 {
                a = a.wrapping_add(m.r[i]);
            } else {
                return Option::None;
            }
        }
    }
    match f.index {
        None => {}
        x => {
            let (i, w, _) = gpr(x)?;
            let v = if w == 32 {
                addr32 = true;
                m.r[i] & 0xffff_ffff
            } else if w == 64 {
                m.r[i]
            } else {
                return Option::None;
            };
            a = a.wrapping_add(v.wrapping_mul(f.scale as u64));
        }
    }
    a = a.wrapping_add(f.displ);
    if addr32 {
        a &= 0xffff_ffff;
    }
    // segment: explicit prefix only; CS/DS/ES/SS bases are zero in 64-bit mode
    match f.seg {
        FS => a = a.wrapping_add(m.fs),
        GS => a = a.wrapping_add(m.gs),
        _ => {}
    }
    Some(a)
}

fn imm_of(f: &Fields, k: OpKind, w: u32) -> Option<u128> {
    let v: u64 = match k {
        OpKind::Immediate8 => f.imm & 0xff,
        OpKind::Immediate8_2nd => f.imm2 as u64,
        OpKind::Immediate16 => f.imm & 0xffff,
        OpKind::Immediate32 => f.imm & 0xffff_ffff,
        OpKind::Immediate64 => f.imm,
        OpKind::Immediate8to16 => (f.imm as u8 as i8 as i64) as u64,
        OpKind::Immediate8to32 => (f.imm as u8 as i8 as i64) as u64,
        OpKind::Immediate8to64 => (f.imm as u8 as i8 as i64) as u64,
        OpKind::Immediate32to64 => (f.imm as u32 as i32 as i64) as u64,
        _ => return None,
    };
    Some((v as u128) & mask(w))
}

enum Rd {
    Val(u128),
    Fault,
    Unknown,
}

/// Read operand `n` at width `w` bits.
fn rd_op(f: &Fields, m: &Mach, n: usize, w: u32) -> Rd {
    match f.k[n] {
        OpKind::Register => match rd_reg(m, f.r[n]) {
            Some(v) => Rd::Val(v & mask(w)),
            None => Rd::Unknown,
        },
        OpKind::Memory => match ea(f, m) {
            Some(a) => match rd_mem(m, a, (w / 8) as usize) {
                Some(v) => Rd::Val(v),
                None => Rd::Fault,
            },
            None => Rd::Unknown,
        },
        k => match imm_of(f, k, w) {
            Some(v) => Rd::Val(v),
            None => Rd::Unknown,
        },
    }
}

enum Wr {
    Done,
    Fault,
    Unknown,
}

fn wr_op(f: &Fields, m: &mut Mach, pre: &Mach, n: usize, w: u32, val: u128) -> Wr {
    match f.k[n] {
        OpKind::Register => {
            if wr_reg(m, f.r[n], val & mask(w)) {
                Wr::Done
            } else {
                Wr::Unknown
            }
        }
        // the address uses the register values from before the instruction
        OpKind::Memory => match ea(f, pre) {
            Some(a) => {
                if wr_mem(m, a, (w / 8) as usize, val & mask(w)) {
                    Wr::Done
                } else {
                    Wr::Fault
                }
            }
            None => Wr::Unknown,
        },
        _ => Wr::Unknown,
    }
}

// ---------------------------------------------------------------------------------------
// flags
// ---------------------------------------------------------------------------------------
fn msb(v: u128, w: u32) -> bool {
    (v >> (w - 1)) & 1 != 0
}

fn szp(res: u128, w: u32) -> u64 {
    let mut f = 0;
    if res & mask(w) == 0 {
        f |= ZF;
    }
    if msb(res, w) {
        f |= SF;
    }
    if ((res & 0xff) as u8).count_ones() % 2 == 0 {
        f |= PF;
    }
    f
}

/// condition codes in hardware encoding order: O NO B AE E NE BE A S NS P NP L GE LE G
pub(crate) fn cond(cc: u8, fl: u64) -> bool {
    let cf = fl & CF != 0;
    let zf = fl & ZF != 0;
    let sf = fl & SF != 0;
    let of = fl & OF != 0;
    let pf = fl & PF != 0;
    match cc {
        0 => of,
        1 => !of,
        2 => cf,
        3 => !cf,
        4 => zf,
        5 => !zf,
        6 => cf || zf,
        7 => !cf && !zf,
        8 => sf,
        9 => !sf,
        10 => pf,
        11 => !pf,
        12 => sf != of,
        13 => sf == of,
        14 => zf || (sf != of),
        _ => !zf && (sf == of),
    }
}

fn set_flags(m: &mut Mach, mask_: u64, val: u64) {
    m.rflags = (m.rflags & !mask_) | (val & mask_);
}

fn sext(v: u128, from: u32) -> i128 {
    let sh = 128 - from;
    ((v << sh) as i128) >> sh
}

// ---------------------------------------------------------------------------------------
// exec
// ---------------------------------------------------------------------------------------
macro_rules! rd {
    ($f:expr, $m:expr, $n:expr, $w:expr, $out:ident) => {
        match rd_op($f, $m, $n, $w) {
            Rd::Val(v) => v,
            Rd::Fault => {
                $out.fault = true;
                return $out;
            }
            Rd::Unknown => {
                $out.skip = true;
                return $out;
            }
        }
    };
}
macro_rules! wr {
    ($f:expr, $m:expr, $pre:expr, $n:expr, $w:expr, $v:expr, $out:ident) => {
        match wr_op($f, $m, $pre, $n, $w, $v) {
            Wr::Done => {}
            Wr::Fault => {
                $out.fault = true;
                return $out;
            }
            Wr::Unknown => {
                $out.skip = true;
                return $out;
            }
        }
    };
}

/// `w`: operand size in bits; `sw`: source size (MOVZX/MOVSXD); `cc`: condition code.
/// `pre.r[RIP_I]` is the address of the *next* instruction (as after fetch).
pub(crate) fn exec(f: &Fields, op: Op, w: u32, sw: u32, cc: u8, pre: &Mach) -> Out {
    let mut out = Out {
        fault: false,
        m: *pre,
        def: 0,
        undef: 0,
        any_regs: 0,
        skip: false,
        fault_only: false,
        taken: false,
    };
    let nbytes = (w / 8) as usize;
    match op {
        Op::Add | Op::Adc | Op::Sub | Op::Cmp => {
            let a = rd!(f, pre, 0, w, out);
            let b = rd!(f, pre, 1, w, out);
            let c: u128 = if op == Op::Adc && pre.rflags & CF != 0 { 1 } else { 0 };
            let (res, cf, of) = if op == Op::Add || op == Op::Adc {
                let full = a + b + c;
                let res = full & mask(w);
                (res, (full >> w) != 0, msb((a ^ res) & (b ^ res), w))
            } else {
                let res = a.wrapping_sub(b).wrapping_sub(c) & mask(w);
                (res, a < b + c, msb((a ^ b) & (a ^ res), w))
            };
            let mut fl = szp(res, w);
            if cf {
                fl |= CF;
            }
            if of {
                fl |= OF;
            }
            if op != Op::Cmp {
                wr!(f, &mut out.m, pre, 0, w, res, out);
            }
            set_flags(&mut out.m, CF | PF | ZF | SF | OF, fl);
            out.def = CF | PF | ZF | SF | OF;
            out.undef = AF; // defined by hardware, not modelled by the emulator (README) and not part of C02
        }
        Op::And | Op::Xor | Op::Test => {
            let a = rd!(f, pre, 0, w, out);
            let b = rd!(f, pre, 1, w, out);
            let res = if op == Op::Xor { a ^ b } else { a & b };
            if op != Op::Test {
                wr!(f, &mut out.m, pre, 0, w, res, out);
            }
            set_flags(&mut out.m, CF | PF | ZF | SF | OF, szp(res, w));
            out.def = CF | PF | ZF | SF | OF;
            out.undef = AF;
        }
        Op::Inc | Op::Dec => {
            let a = rd!(f, pre, 0, w, out);
            let (res, of) = if op == Op::Inc {
                let r = (a + 1) & mask(w);
                (r, r == 1u128 << (w - 1))
            } else {
                (a.wrapping_sub(1) & mask(w), a == 1u128 << (w - 1))
            };
            wr!(f, &mut out.m, pre, 0, w, res, out);
            let mut fl = szp(res, w);
            if of {
                fl |= OF;
            }
            set_flags(&mut out.m, PF | ZF | SF | OF, fl);
            out.def = PF | ZF | SF | OF; // CF unaffected
            out.undef = AF;
        }
        Op::Neg => {
            let a = rd!(f, pre, 0, w, out);
            let res = (0u128).wrapping_sub(a) & mask(w);
            wr!(f, &mut out.m, pre, 0, w, res, out);
            let mut fl = szp(res, w);
            if a != 0 {
                fl |= CF;
            }
            if a == 1u128 << (w - 1) {
                fl |= OF;
            }
            set_flags(&mut out.m, CF | PF | ZF | SF | OF, fl);
            out.def = CF | PF | ZF | SF | OF;
            out.undef = AF;
        }
        Op::Not => {
            let a = rd!(f, pre, 0, w, out);
            wr!(f, &mut out.m, pre, 0, w, !a & mask(w), out);
        }
        Op::Shl | Op::Shr => {
            let a = rd!(f, pre, 0, w, out);
            let cnt_raw = rd!(f, pre, 1, 8, out);
            let cnt = (cnt_raw as u32) & if w == 64 { 63 } else { 31 };
            if cnt == 0 {
                // no flags affected, destination unchanged (a 32-bit register destination is
                // still written, i.e. zero-extended)
                wr!(f, &mut out.m, pre, 0, w, a, out);
            } else {
                let (res, cf_known, cf) = if op == Op::Shl {
                    let res = if cnt >= w { 0 } else { (a << cnt) & mask(w) };
                    if cnt > w {
                        (res, false, false)
                    } else if cnt == w {
                        (res, false, false)
                    } else {
                        (res, true, (a >> (w - cnt)) & 1 != 0)
                    }
                } else {
                    let res = if cnt >= w { 0 } else { a >> cnt };
                    if cnt >= w {
                        (res, false, false)
                    } else {
                        (res, true, (a >> (cnt - 1)) & 1 != 0)
                    }
                };
                wr!(f, &mut out.m, pre, 0, w, res, out);
                let mut fl = szp(res, w);
                let mut def = PF | ZF | SF;
                let mut undef = AF;
                if cf_known {
                    def |= CF;
                    if cf {
                        fl |= CF;
                    }
                } else {
                    undef |= CF;
                }
                if cnt == 1 {
                    def |= OF;
                    let of = if op == Op::Shl { msb(res, w) != cf } else { msb(a, w) };
                    if of {
                        fl |= OF;
                    }
                } else {
                    undef |= OF;
                }
                set_flags(&mut out.m, def, fl);
                out.def = def;
                out.undef = undef;
            }
        }
        Op::Mul | Op::Imul1 => {
            let src = rd!(f, pre, 0, w, out);
            let acc = (pre.r[RAX_I] as u128) & mask(w);
            let (lo, hi, over) = if op == Op::Mul {
                let p = acc.wrapping_mul(src); // both < 2^64: no wrap
                let lo = p & mask(w);
                let hi = (p >> w) & mask(w);
                (lo, hi, hi != 0)
            } else {
                let p = sext(acc, w).wrapping_mul(sext(src, w));
                let lo = (p as u128) & mask(w);
                let hi = ((p as u128) >> w) & mask(w);
                (lo, hi, sext(lo, w) != p)
            };
            if w == 8 {
                out.m.r[RAX_I] = (pre.r[RAX_I] & !0xffff) | ((hi as u64) << 8) | lo as u64;
            } else if w == 16 {
                out.m.r[RAX_I] = (pre.r[RAX_I] & !0xffff) | lo as u64;
                out.m.r[RDX_I] = (pre.r[RDX_I] & !0xffff) | hi as u64;
            } else {
                out.m.r[RAX_I] = lo as u64;
                out.m.r[RDX_I] = hi as u64;
            }
            set_flags(&mut out.m, CF | OF, if over { CF | OF } else { 0 });
            out.def = CF | OF;
            out.undef = SF | ZF | AF | PF;
        }
        Op::Imul2 | Op::Imul3 => {
            let (a, b) = if op == Op::Imul2 {
                (rd!(f, pre, 0, w, out), rd!(f, pre, 1, w, out))
            } else {
                (rd!(f, pre, 1, w, out), rd!(f, pre, 2, w, out))
            };
            let p = sext(a, w).wrapping_mul(sext(b, w));
            let res = (p as u128) & mask(w);
            wr!(f, &mut out.m, pre, 0, w, res, out);
            let over = sext(res, w) != p;
            set_flags(&mut out.m, CF | OF, if over { CF | OF } else { 0 });
            out.def = CF | OF;
            out.undef = SF | ZF | AF | PF;
        }
        Op::Div | Op::Idiv | Op::DivFault | Op::IdivFault => {
            let signed = op == Op::Idiv || op == Op::IdivFault;
            let d = rd!(f, pre, 0, w, out);
            out.undef = STATUS;
            // the #DE condition is decided without a divider circuit
            if div_faults(signed, w, d, pre) {
                out.fault = true;
                return out;
            }
            if op == Op::DivFault || op == Op::IdivFault {
                out.fault_only = true;
                return out;
            }
            // the value part uses the same 128-bit primitive any implementation uses (DESIGN 5.3)
            let (q, r) = if w == 64 {
                let n = (pre.r[RAX_I] as u128) | ((pre.r[RDX_I] as u128) << 64);
                if !signed {
                    (n / d, n % d)
                } else {
                    let ns = n as i128;
                    let ds = d as u64 as i64 as i128;
                    ((ns.wrapping_div(ds)) as u128 & mask(64), (ns.wrapping_rem(ds)) as u128 & mask(64))
                }
            } else {
                let n: u128 = if w == 8 {
                    (pre.r[RAX_I] & 0xffff) as u128
                } else {
                    (((pre.r[RDX_I] as u128) & mask(w)) << w) | ((pre.r[RAX_I] as u128) & mask(w))
                };
                if !signed {
                    (n / d, n % d)
                } else {
                    let ns = sext(n, 2 * w);
                    let ds = sext(d, w);
                    ((ns.wrapping_div(ds) as u128) & mask(w), (ns.wrapping_rem(ds) as u128) & mask(w))
                }
            };
            if w == 8 {
                out.m.r[RAX_I] = (pre.r[RAX_I] & !0xffff) | ((r as u64) << 8) | q as u64;
            } else if w == 16 {
                out.m.r[RAX_I] = (pre.r[RAX_I] & !0xffff) | q as u64;
                out.m.r[RDX_I] = (pre.r[RDX_I] & !0xffff) | r as u64;
            } else {
                out.m.r[RAX_I] = q as u64;
                out.m.r[RDX_I] = r as u64;
            }
        }
        Op::Mov => {
            let v = rd!(f, pre, 1, w, out);
            wr!(f, &mut out.m, pre, 0, w, v, out);
        }
        Op::Movzx => {
            let v = rd!(f, pre, 1, sw, out);
            wr!(f, &mut out.m, pre, 0, w, v, out);
        }
        Op::Movsxd => {
            let v = rd!(f, pre, 1, sw, out);
            wr!(f, &mut out.m, pre, 0, w, sext(v, sw) as u128, out);
        }
        Op::Lea => {
            let a = match ea_noseg(f, pre) {
                Some(a) => a,
                None => {
                    out.skip = true;
                    return out;
                }
            };
            wr!(f, &mut out.m, pre, 0, w, a as u128, out);
        }
        Op::Cmov => {
            // the source is read (and can fault) whether or not the move happens; a 32-bit
            // destination is zero-extended either way
            let s = rd!(f, pre, 1, w, out);
            let d = rd!(f, pre, 0, w, out);
            let v = if cond(cc, pre.rflags) { s } else { d };
            wr!(f, &mut out.m, pre, 0, w, v, out);
        }
        Op::Set => {
            let v: u128 = if cond(cc, pre.rflags) { 1 } else { 0 };
            wr!(f, &mut out.m, pre, 0, 8, v, out);
        }
        Op::Cdq => {
            let s = pre.r[RAX_I] & 0x8000_0000 != 0;
            out.m.r[RDX_I] = if s { 0xffff_ffff } else { 0 };
        }
        Op::Cdqe => {
            out.m.r[RAX_I] = pre.r[RAX_I] as u32 as i32 as i64 as u64;
        }
        Op::Cqo => {
            out.m.r[RDX_I] = if pre.r[RAX_I] >> 63 != 0 { u64::MAX } else { 0 };
        }
        Op::Cwd => {
            let s = pre.r[RAX_I] & 0x8000 != 0;
            out.m.r[RDX_I] = (pre.r[RDX_I] & !0xffff) | if s { 0xffff } else { 0 };
        }
        Op::Cld => {
            out.m.rflags = pre.rflags & !DF;
            out.def = DF;
        }
        Op::Nop => {}
        Op::Cpuid => {
            // EAX, EBX, ECX, EDX are written (zero-extended); the values are CPU-specific
            out.any_regs = (1 << RAX_I) | (1 << RBX_I) | (1 << RCX_I) | (1 << RDX_I);
        }
        Op::MovdToXmm => {
            let v = rd!(f, pre, 1, 32, out);
            wr!(f, &mut out.m, pre, 0, 128, v, out);
        }
        Op::MovdFromXmm => {
            let v = rd!(f, pre, 1, 128, out);
            wr!(f, &mut out.m, pre, 0, 32, v & 0xffff_ffff, out);
        }
        Op::Movups => {
            let v = rd!(f, pre, 1, 128, out);
            wr!(f, &mut out.m, pre, 0, 128, v, out);
        }
        Op::Xorps => {
            if f.k[1] == OpKind::Memory {
                match ea(f, pre) {
                    Some(a) => {
                        if a & 0xf != 0 {
                            out.fault = true; // #GP: misaligned 128-bit operand
                            return out;
                        }
                    }
                    None => {
                        out.skip = true;
                        return out;
                    }
                }
            }
            let a = rd!(f, pre, 0, 128, out);
            let b = rd!(f, pre, 1, 128, out);
            wr!(f, &mut out.m, pre, 0, 128, a ^ b, out);
        }
        Op::Push => {
            // operand size w (16 or 64); immediates are sign-extended to it
            let v = rd!(f, pre, 0, w, out);
            let nsp = pre.r[RSP_I].wrapping_sub(nbytes as u64);
            if !wr_mem(&mut out.m, nsp, nbytes, v) {
                out.fault = true;
                return out;
            }
            out.m.r[RSP_I] = nsp;
        }
        Op::Pop => {
            let v = match rd_mem(pre, pre.r[RSP_I], nbytes) {
                Some(v) => v,
                None => {
                    out.fault = true;
                    return out;
                }
            };
            out.m.r[RSP_I] = pre.r[RSP_I].wrapping_add(nbytes as u64);
            wr!(f, &mut out.m, pre, 0, w, v, out);
        }
        Op::CallRel | Op::CallRm => {
            let target = if op == Op::CallRel { f.branch as u128 } else { rd!(f, pre, 0, 64, out) };
            let nsp = pre.r[RSP_I].wrapping_sub(8);
            if !wr_mem(&mut out.m, nsp, 8, pre.r[RIP_I] as u128) {
                out.fault = true;
                return out;
            }
            out.m.r[RSP_I] = nsp;
            out.m.r[RIP_I] = target as u64;
            out.taken = true;
        }
        Op::Ret => {
            let v = match rd_mem(pre, pre.r[RSP_I], 8) {
                Some(v) => v,
                None => {
                    out.fault = true;
                    return out;
                }
            };
            out.m.r[RSP_I] = pre.r[RSP_I].wrapping_add(8);
            out.m.r[RIP_I] = v as u64;
            out.taken = true;
        }
        Op::JmpRel => {
            out.m.r[RIP_I] = f.branch;
            out.taken = true;
        }
        Op::JmpRm => {
            let t = rd!(f, pre, 0, 64, out);
            out.m.r[RIP_I] = t as u64;
            out.taken = true;
        }
        Op::Jcc => {
            if cond(cc, pre.rflags) {
                out.m.r[RIP_I] = f.branch;
                out.taken = true;
            }
        }
        Op::Jrcxz => {
            if pre.r[RCX_I] == 0 {
                out.m.r[RIP_I] = f.branch;
                out.taken = true;
            }
        }
        Op::Jecxz => {
            if pre.r[RCX_I] & 0xffff_ffff == 0 {
                out.m.r[RIP_I] = f.branch;
                out.taken = true;
            }
        }
        Op::Other => {
            out.skip = true;
        }
    }
    out
}

/// #DE condition of DIV/IDIV without a divider: divisor zero, or quotient out of range.
pub(crate) fn div_faults(signed: bool, w: u32, d: u128, pre: &Mach) -> bool {
    if d == 0 {
        return true;
    }
    let (hi, lo) = if w == 8 {
        (((pre.r[RAX_I] >> 8) & 0xff) as u128, (pre.r[RAX_I] & 0xff) as u128)
    } else {
        ((pre.r[RDX_I] as u128) & mask(w), (pre.r[RAX_I] as u128) & mask(w))
    };
    if !signed {
        // quotient < 2^w  <=>  high half < divisor
        return hi >= d;
    }
    let n = sext((hi << w) | lo, 2 * w);
    let ds = sext(d, w);
    let an = n.unsigned_abs();
    let ad = ds.unsigned_abs();
    if (n < 0) == (ds < 0) {
        // quotient >= 0 must be <= 2^(w-1)-1  <=>  |n| < |d| * 2^(w-1)
        (an >> (w - 1)) >= ad
    } else {
        // quotient <= 0 must be >= -2^(w-1)   <=>  |n| < |d| * (2^(w-1) + 1)
        an >= (ad << (w - 1)) + ad
    }
}

/// LEA ignores segment overrides.
fn ea_noseg(f: &Fields, m: &Mach) -> Option<u64> {
    let mut g = *f;
    g.seg = Register::None;
    ea(&g, m)
}

// ---------------------------------------------------------------------------------------
// comparison of the emulator's post-state with the reference
// ---------------------------------------------------------------------------------------
pub(crate) const D_FAULT_MISSED: u32 = 1 << 0; // CPU faults, emulator produced a result
pub(crate) const D_SPURIOUS_ERR: u32 = 1 << 1; // CPU completes, emulator reported an error
pub(crate) const D_GPR: u32 = 1 << 2;
pub(crate) const D_XMM: u32 = 1 << 3;
pub(crate) const D_MEM: u32 = 1 << 4;
pub(crate) const D_RIP: u32 = 1 << 5;
pub(crate) const D_SEG: u32 = 1 << 6;
pub(crate) const D_FLAGS_DEF: u32 = 1 << 7;
pub(crate) const D_FLAGS_KEEP: u32 = 1 << 8;
pub(crate) const D_RSP: u32 = 1 << 9;
pub(crate) const D_MEM_ON_FAULT: u32 = 1 << 10;

pub(crate) fn diff(out: &Out, pre: &Mach, is_err: bool, post: &Mach) -> u32 {
    let bad = diff_inner(out, pre, is_err, post);
    #[cfg(not(kani))]
    if bad != 0 && std::env::var("VERIF_REPLAY_VERBOSE").is_ok() {
        println!("REPLAY-DIFF: mask={:#x} ref_fault={} emulator_err={}", bad, out.fault, is_err);
        let names = ["RIP", "RAX", "RBX", "RCX", "RDX", "RSI", "RDI", "RSP", "RBP", "R8", "R9", "R10", "R11", "R12", "R13", "R14", "R15"];
        for i in 0..17 {
            if post.r[i] != out.m.r[i] || pre.r[i] != post.r[i] {
                println!("REPLAY-DIFF: {:4} pre={:#018x} emulator={:#018x} cpu_reference={:#018x}", names[i], pre.r[i], post.r[i], out.m.r[i]);
            }
        }
        println!("REPLAY-DIFF: rflags pre={:#x} emulator={:#x} cpu_reference={:#x} defined_mask={:#x} undefined_mask={:#x}", pre.rflags, post.rflags, out.m.rflags, out.def, out.undef);
        for i in 0..16 {
            if post.x[i] != out.m.x[i] {
                println!("REPLAY-DIFF: XMM{} pre={:#x} emulator={:#x} cpu_reference={:#x}", i, pre.x[i], post.x[i], out.m.x[i]);
            }
        }
        if pre.mem_on {
            println!("REPLAY-DIFF: mem pre      ={:02x?}", pre.mem);
            println!("REPLAY-DIFF: mem emulator ={:02x?}", post.mem);
            println!("REPLAY-DIFF: mem cpu_ref  ={:02x?} access={}", out.m.mem, pre.mem_acc);
        }
    }
    bad
}

fn diff_inner(out: &Out, pre: &Mach, is_err: bool, post: &Mach) -> u32 {
    let mut bad = 0u32;
    if out.skip {
        return 0;
    }
    if out.fault {
        if !is_err {
            bad |= D_FAULT_MISSED;
        }
        // a refused access leaves memory unchanged
        let mut i = 0;
        while i < DLEN {
            if post.mem[i] != pre.mem[i] {
                bad |= D_MEM_ON_FAULT;
            }
            i += 1;
        }
        return bad;
    }
    if is_err {
        return D_SPURIOUS_ERR;
    }
    if out.fault_only {
        return 0;
    }
    let mut i = 1;
    while i < 17 {
        if out.any_regs & (1 << i) != 0 {
            // CPU-specific value: only "zero-extended 32-bit write" is required
            if post.r[i] >> 32 != 0 {
                bad |= D_GPR;
            }
        } else if post.r[i] != out.m.r[i] {
            bad |= if i == RSP_I { D_RSP } else { D_GPR };
        }
        i += 1;
    }
    if post.r[RIP_I] != out.m.r[RIP_I] {
        bad |= D_RIP;
    }
    let mut i = 0;
    while i < 16 {
        if post.x[i] != out.m.x[i] {
            bad |= D_XMM;
        }
        i += 1;
    }
    let mut i = 0;
    while i < DLEN {
        if post.mem[i] != out.m.mem[i] {
            bad |= D_MEM;
        }
        i += 1;
    }
    if post.fs != out.m.fs || post.gs != out.m.gs {
        bad |= D_SEG;
    }
    if (post.rflags ^ out.m.rflags) & out.def != 0 {
        bad |= D_FLAGS_DEF;
    }
    if (post.rflags ^ pre.rflags) & !(out.def | out.undef) != 0 {
        bad |= D_FLAGS_KEEP;
    }
    bad
}
