//! C05 — effective addresses. The memory-operand fields of the `Instruction` (base, index,
//! scale, displacement, segment prefix) are symbolic over every class the decoder can deliver
//! in 64-bit mode; the real `instruction_operand()` + `mem_addr()` (and LEA, and a MOV load /
//! store probe) are compared with the hardware formula of x86ref::ea.
#[cfg(not(kani))]
use crate::verif::shim as kani;

use crate::helpers::operand::Operand;
use crate::verif::ib::{rebuild, Fields};
use crate::verif::insn_rt::*;
use crate::verif::util::*;
use crate::verif::x86ref::*;
use iced_x86::{Code, OpKind, Register};

const R64: [Register; 16] = [
    Register::RAX, Register::RCX, Register::RDX, Register::RBX, Register::RSP, Register::RBP, Register::RSI,
    Register::RDI, Register::R8, Register::R9, Register::R10, Register::R11, Register::R12, Register::R13,
    Register::R14, Register::R15,
];
const R32: [Register; 16] = [
    Register::EAX, Register::ECX, Register::EDX, Register::EBX, Register::ESP, Register::EBP, Register::ESI,
    Register::EDI, Register::R8D, Register::R9D, Register::R10D, Register::R11D, Register::R12D, Register::R13D,
    Register::R14D, Register::R15D,
];
const SEGS: [Register; 7] = [
    Register::None, Register::ES, Register::CS, Register::SS, Register::DS, Register::FS, Register::GS,
];

/// Arbitrary memory-operand fields of one address size. a32 = the 0x67 prefix is present.
/// Classes (what the decoder delivers, see the bridge enumeration in the evidence):
///   base  : none | any of 16 GPRs of the address size | RIP / EIP (displacement already absolute)
///   index : none | any GPR of the address size except the stack pointer
///   scale : 1, 2, 4, 8     displacement: 0 / sign-extended 8 / sign-extended 32 bits / 64-bit moffs
///   segment prefix: none, ES, CS, SS, DS, FS, GS
fn sym_mem_fields(f: &mut Fields, a32: bool) {
    let regs = if a32 { &R32 } else { &R64 };
    let bsel: u8 = kani::any::<u8>();
    kani::assume(bsel < 18);
    f.base = if bsel < 16 {
        regs[bsel as usize]
    } else if bsel == 16 {
        Register::None
    } else if a32 {
        Register::EIP
    } else {
        Register::RIP
    };
    let isel: u8 = kani::any::<u8>();
    kani::assume(isel < 17 && isel != 4);
    f.index = if isel < 16 { regs[isel as usize] } else { Register::None };
    // RIP-relative and moffs forms have no index
    if bsel == 17 {
        f.index = Register::None;
    }
    let ssel: u8 = kani::any::<u8>();
    kani::assume(ssel < 4);
    f.scale = 1u32 << ssel;
    if f.index == Register::None {
        f.scale = 1;
    }
    let dsel: u8 = kani::any::<u8>();
    kani::assume(dsel < 4);
    let raw: u64 = kani::any::<u64>();
    match dsel {
        0 => {
            f.displ_size = 0;
            f.displ = 0;
        }
        1 => {
            f.displ_size = 1;
            f.displ = raw as u8 as i8 as i64 as u64;
        }
        2 => {
            f.displ_size = if a32 { 4 } else { 8 };
            // iced reports a sign-extended disp32 with displ_size 8 in 64-bit addressing and 4 in 32-bit
            f.displ = raw as u32 as i32 as i64 as u64;
            if a32 {
                f.displ &= 0xffff_ffff;
            }
        }
        _ => {
            // absolute forms: 64-bit moffs / folded RIP-relative target
            f.displ_size = if a32 { 4 } else { 8 };
            f.displ = if a32 { raw & 0xffff_ffff } else { raw };
        }
    }
    let gsel: u8 = kani::any::<u8>();
    kani::assume(gsel < 7);
    f.seg = SEGS[gsel as usize];
}

fn mov_load_fields() -> Fields {
    Fields {
        code: Code::Mov_r64_rm64,
        len: 4,
        k: [OpKind::Register, OpKind::Memory, OpKind::Register, OpKind::Register],
        r: [Register::RAX, Register::None, Register::None, Register::None],
        base: Register::None,
        index: Register::None,
        scale: 1,
        displ: 0,
        displ_size: 0,
        seg: Register::None,
        imm: 0,
        imm2: 0,
        branch: 0,
        ip: 0,
    }
}

fn addr_body(a32: bool) {
    let mut f = mov_load_fields();
    f.ip = kani::any::<u64>();
    sym_mem_fields(&mut f, a32);
    let (ax, pre) = mk_machine(&f, false, false, 0);
    let want = ea(&f, &pre);
    let op = ax.instruction_operand(rebuild(&f), 1);
    vcheck!("C05|address|reference_models_every_class", want.is_some());
    vcheck!("C05|address|operand_accepted", op.is_ok());
    if let (Ok(Operand::Memory(m)), Some(w)) = (op, want) {
        let got = ax.mem_addr(m);
        vcheck!("C05|address|equals_cpu_effective_address", got == w);
    }
    vreach!("C05|address|reach_sib_fs", f.base != Register::None && f.index != Register::None && f.seg == Register::FS && f.scale == 8);
    vreach!("C05|address|reach_rip_relative", f.base == Register::RIP || f.base == Register::EIP);
    std::mem::forget(ax);
}

// @harness id=c05_addr64 props=C05,C19 crash=C05,C19 tier=quick timeout=1500 desc="instruction_operand+mem_addr for every 64-bit addressing class: base x index x scale x disp x segment, all register values"
#[cfg_attr(kani, kani::proof)]
#[cfg_attr(kani, kani::unwind(90))]
#[cfg_attr(kani, kani::stub(alloc::fmt::format, crate::verif::util::stub_format))]
#[cfg_attr(kani, kani::stub(<iced_x86::Register as std::fmt::Debug>::fmt, crate::verif::util::stub_register_fmt))]
pub(crate) fn c05_addr64() {
    addr_body(false);
}

// @harness id=c05_addr32 props=C05,C19 crash=C05,C19 tier=quick timeout=1500 desc="same under the 0x67 address-size prefix: 32-bit base/index registers, EIP-relative, result zero-extended mod 2^32"
#[cfg_attr(kani, kani::proof)]
#[cfg_attr(kani, kani::unwind(90))]
#[cfg_attr(kani, kani::stub(alloc::fmt::format, crate::verif::util::stub_format))]
#[cfg_attr(kani, kani::stub(<iced_x86::Register as std::fmt::Debug>::fmt, crate::verif::util::stub_register_fmt))]
pub(crate) fn c05_addr32() {
    addr_body(true);
}

fn lea_body(w: u32, a32: bool) {
    let mut f = mov_load_fields();
    f.code = match w {
        16 => Code::Lea_r16_m,
        32 => Code::Lea_r32_m,
        _ => Code::Lea_r64_m,
    };
    f.r[0] = match w {
        16 => Register::DX,
        32 => Register::EDX,
        _ => Register::RDX,
    };
    f.ip = kani::any::<u64>();
    sym_mem_fields(&mut f, a32);
    let (mut ax, pre) = mk_machine(&f, false, false, 0);
    let r = ax.mnemonic_lea(rebuild(&f));
    let post = capture(&ax, &pre);
    let out = exec(&f, Op::Lea, w, 0, 0, &pre);
    let bad = diff(&out, &pre, r.is_err(), &post);
    vcheck!("C05|lea|completes", bad & D_SPURIOUS_ERR == 0);
    vcheck!("C05|lea|destination_is_truncated_effective_address", bad & (D_GPR | D_RSP) == 0);
    vcheck!("C05|lea|nothing_else_changes", bad & (D_XMM | D_MEM | D_RIP | D_SEG | D_FLAGS_DEF | D_FLAGS_KEEP) == 0);
    vcheck!("C05|lea|reference_models_every_class", !out.skip);
    vreach!("C05|lea|reach_gs_ignored", f.seg == Register::GS && f.index != Register::None);
    std::mem::forget(ax);
}

// @harness id=c05_lea64 props=C05,C19 crash=C05,C19 tier=quick timeout=1500 desc="LEA r64, m over every 64-bit addressing class (segment ignored)"
#[cfg_attr(kani, kani::proof)]
#[cfg_attr(kani, kani::unwind(90))]
#[cfg_attr(kani, kani::stub(alloc::fmt::format, crate::verif::util::stub_format))]
#[cfg_attr(kani, kani::stub(<iced_x86::Register as std::fmt::Debug>::fmt, crate::verif::util::stub_register_fmt))]
#[cfg_attr(kani, kani::stub(<iced_x86::Code as std::fmt::Debug>::fmt, crate::verif::util::stub_code_fmt))]
#[cfg_attr(kani, kani::stub(<iced_x86::Mnemonic as std::fmt::Debug>::fmt, crate::verif::util::stub_mnemonic_fmt))]
pub(crate) fn c05_lea64() {
    lea_body(64, false);
}

// @harness id=c05_lea32 props=C05,C19 crash=C05,C19 tier=quick timeout=1500 desc="LEA r32, m: result truncated to 32 bits and zero-extended"
#[cfg_attr(kani, kani::proof)]
#[cfg_attr(kani, kani::unwind(90))]
#[cfg_attr(kani, kani::stub(alloc::fmt::format, crate::verif::util::stub_format))]
#[cfg_attr(kani, kani::stub(<iced_x86::Register as std::fmt::Debug>::fmt, crate::verif::util::stub_register_fmt))]
#[cfg_attr(kani, kani::stub(<iced_x86::Code as std::fmt::Debug>::fmt, crate::verif::util::stub_code_fmt))]
#[cfg_attr(kani, kani::stub(<iced_x86::Mnemonic as std::fmt::Debug>::fmt, crate::verif::util::stub_mnemonic_fmt))]
pub(crate) fn c05_lea32() {
    lea_body(32, false);
}

// @harness id=c05_lea16 props=C05,C19 crash=C05,C19 tier=quick timeout=1500 desc="LEA r16, m: low 16 bits written, upper 48 preserved"
#[cfg_attr(kani, kani::proof)]
#[cfg_attr(kani, kani::unwind(90))]
#[cfg_attr(kani, kani::stub(alloc::fmt::format, crate::verif::util::stub_format))]
#[cfg_attr(kani, kani::stub(<iced_x86::Register as std::fmt::Debug>::fmt, crate::verif::util::stub_register_fmt))]
#[cfg_attr(kani, kani::stub(<iced_x86::Code as std::fmt::Debug>::fmt, crate::verif::util::stub_code_fmt))]
#[cfg_attr(kani, kani::stub(<iced_x86::Mnemonic as std::fmt::Debug>::fmt, crate::verif::util::stub_mnemonic_fmt))]
pub(crate) fn c05_lea16() {
    lea_body(16, false);
}

// @harness id=c05_lea64_a32 props=C05,C19 crash=C05,C19 tier=quick timeout=1500 desc="LEA r64, m with the 0x67 prefix (32-bit address arithmetic)"
#[cfg_attr(kani, kani::proof)]
#[cfg_attr(kani, kani::unwind(90))]
#[cfg_attr(kani, kani::stub(alloc::fmt::format, crate::verif::util::stub_format))]
#[cfg_attr(kani, kani::stub(<iced_x86::Register as std::fmt::Debug>::fmt, crate::verif::util::stub_register_fmt))]
#[cfg_attr(kani, kani::stub(<iced_x86::Code as std::fmt::Debug>::fmt, crate::verif::util::stub_code_fmt))]
#[cfg_attr(kani, kani::stub(<iced_x86::Mnemonic as std::fmt::Debug>::fmt, crate::verif::util::stub_mnemonic_fmt))]
pub(crate) fn c05_lea64_a32() {
    lea_body(64, true);
}

fn mov_probe_body(store: bool) {
    // MOV RAX, [mem] / MOV [mem], RAX with every 64-bit addressing class against area D: ties the
    // computed address to the bytes actually read or written
    let mut f = mov_load_fields();
    if store {
        f.code = Code::Mov_rm64_r64;
        f.k = [OpKind::Memory, OpKind::Register, OpKind::Register, OpKind::Register];
        f.r = [Register::None, Register::RAX, Register::None, Register::None];
    }
    f.ip = kani::any::<u64>();
    sym_mem_fields(&mut f, false);
    let (mut ax, pre) = mk_machine(&f, true, false, 0);
    let r = ax.mnemonic_mov(rebuild(&f));
    let post = capture(&ax, &pre);
    let out = exec(&f, Op::Mov, 64, 0, 0, &pre);
    let bad = diff(&out, &pre, r.is_err(), &post);
    vcheck!("C05|mov_probe|completes_iff_cpu_completes", bad & (D_SPURIOUS_ERR | D_FAULT_MISSED) == 0);
    vcheck!("C05|mov_probe|touches_the_bytes_at_the_cpu_address", bad & (D_GPR | D_RSP | D_MEM | D_MEM_ON_FAULT) == 0);
    vcheck!("C05|mov_probe|reference_models_every_class", !out.skip);
    vreach!("C05|mov_probe|reach_hit", !out.fault && f.index != Register::None);
    std::mem::forget(ax);
}

// @harness id=c05_mov_load props=C05,C19 crash=C05,C19 tier=quick timeout=1800 desc="MOV RAX,[mem] over every 64-bit addressing class against area D"
#[cfg_attr(kani, kani::proof)]
#[cfg_attr(kani, kani::unwind(90))]
#[cfg_attr(kani, kani::stub(alloc::fmt::format, crate::verif::util::stub_format))]
#[cfg_attr(kani, kani::stub(crate::axecutor::Axecutor::collect_mem_error_hints, crate::verif::util::stub_mem_hints))]
#[cfg_attr(kani, kani::stub(<iced_x86::Register as std::fmt::Debug>::fmt, crate::verif::util::stub_register_fmt))]
#[cfg_attr(kani, kani::stub(<iced_x86::Code as std::fmt::Debug>::fmt, crate::verif::util::stub_code_fmt))]
#[cfg_attr(kani, kani::stub(<iced_x86::Mnemonic as std::fmt::Debug>::fmt, crate::verif::util::stub_mnemonic_fmt))]
pub(crate) fn c05_mov_load() {
    mov_probe_body(false);
}

// @harness id=c05_mov_store props=C05,C19 crash=C05,C19 tier=quick timeout=1800 desc="MOV [mem],RAX over every 64-bit addressing class against area D"
#[cfg_attr(kani, kani::proof)]
#[cfg_attr(kani, kani::unwind(90))]
#[cfg_attr(kani, kani::stub(alloc::fmt::format, crate::verif::util::stub_format))]
#[cfg_attr(kani, kani::stub(crate::axecutor::Axecutor::collect_mem_error_hints, crate::verif::util::stub_mem_hints))]
#[cfg_attr(kani, kani::stub(<iced_x86::Register as std::fmt::Debug>::fmt, crate::verif::util::stub_register_fmt))]
#[cfg_attr(kani, kani::stub(<iced_x86::Code as std::fmt::Debug>::fmt, crate::verif::util::stub_code_fmt))]
#[cfg_attr(kani, kani::stub(<iced_x86::Mnemonic as std::fmt::Debug>::fmt, crate::verif::util::stub_mnemonic_fmt))]
pub(crate) fn c05_mov_store() {
    mov_probe_body(true);
}

// C20 on the addressing path: two machines that agree on every register the operand names (base,
// index, destination) and differ elsewhere must compute the same LEA result, for every addressing class.
// @harness id=c20_lea_twin props=C20 crash=C19 tier=quick timeout=1500 desc="two runs of LEA r32/r64, m over every 64-bit addressing class from machines equal on all named registers, arbitrary elsewhere"
#[cfg_attr(kani, kani::proof)]
#[cfg_attr(kani, kani::unwind(90))]
#[cfg_attr(kani, kani::stub(alloc::fmt::format, crate::verif::util::stub_format))]
#[cfg_attr(kani, kani::stub(<iced_x86::Register as std::fmt::Debug>::fmt, crate::verif::util::stub_register_fmt))]
#[cfg_attr(kani, kani::stub(<iced_x86::Code as std::fmt::Debug>::fmt, crate::verif::util::stub_code_fmt))]
#[cfg_attr(kani, kani::stub(<iced_x86::Mnemonic as std::fmt::Debug>::fmt, crate::verif::util::stub_mnemonic_fmt))]
pub(crate) fn c20_lea_twin() {
    let mut f = mov_load_fields();
    let w32: bool = kani::any::<bool>();
    f.code = if w32 { Code::Lea_r32_m } else { Code::Lea_r64_m };
    f.r[0] = if w32 { Register::EDX } else { Register::RDX };
    f.ip = kani::any::<u64>();
    sym_mem_fields(&mut f, false);
    let (mut a, pre_a) = mk_machine(&f, false, false, 0);
    let (mut b, pre_b, written) = mk_twin(&f, Op::Lea, &pre_a, a.stack_top);
    let ra = a.mnemonic_lea(rebuild(&f));
    let rb = b.mnemonic_lea(rebuild(&f));
    let pa = capture(&a, &pre_a);
    let pb = capture(&b, &pre_b);
    let bad = twin_diff(&ra, &rb, &a, &b, &pa, &pb, written);
    vcheck!("C20|lea_all_classes|same_outcome", bad & T_OUTCOME == 0);
    vcheck!("C20|lea_all_classes|written_registers_agree", bad & T_REGS == 0);
    vcheck!("C20|lea_all_classes|flags_and_segments_agree", bad & T_FLAGS == 0);
    vreach!("C20|lea_all_classes|reach_absolute", f.base == Register::None && f.index == Register::None && written != 0x1ffff);
    std::mem::forget(a);
    std::mem::forget(b);
}
