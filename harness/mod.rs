//! Verification harnesses for xarantolus/ax. This directory is copied into a scratch copy
//! of /repo as `src/verif/` on every run (see /verif/DESIGN.md section 2); it is compiled
//! only under `cfg(kani)` (model checking) or `cfg(ax_verif)` (native replay).
#![allow(dead_code, unused_imports, unused_variables, unused_macros, clippy::all)]

#[macro_use]
pub(crate) mod macros;
#[cfg(not(kani))]
pub mod shim;
pub(crate) mod util;

include!("modlist.rs");

#[cfg(not(kani))]
pub mod registry;
