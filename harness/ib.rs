//! Instruction bridge. iced-x86's decoder cannot be executed by the model checker, so the
//! harnesses build `iced_x86::Instruction` values with setters from a plain `Fields` record.
//! The records are produced natively by decoding witness byte strings with the real decoder
//! (`fields_of`), and `rebuild(fields_of(d)) == d` is checked natively for every witness
//! (`Instruction: PartialEq` compares every field except ip/len/code size, which are
//! compared explicitly). Inside a harness exactly the fields the decoder copies from the
//! bytes (immediates, displacement, branch target) are replaced by symbolic values.
use iced_x86::{Code, Instruction, OpKind, Register};

#[derive(Clone, Copy, Debug, PartialEq)]
pub(crate) struct Fields {
    pub code: Code,
    pub len: usize,
    pub k: [OpKind; 4],
    pub r: [Register; 4],
    pub base: Register,
    pub index: Register,
    pub scale: u32,
    pub displ: u64,
    pub displ_size: u32,
    pub seg: Register,
    /// raw immediate: for the sign-extending kinds this is the sign-extended value truncated
    /// to the operand size the kind names (as iced's getters return it)
    pub imm: u64,
    pub imm2: u8,
    pub branch: u64,
    pub ip: u64,
}

pub(crate) const NO_FIELDS: Fields = Fields {
    code: Code::INVALID,
    len: 1,
    k: [OpKind::Register; 4],
    r: [Register::None; 4],
    base: Register::None,
    index: Register::None,
    scale: 1,
    displ: 0,
    displ_size: 0,
    seg: Register::None,
    imm: 0,
    imm2: 0,
    branch: 0,
    ip: 0,
};

fn is_imm(k: OpKind) -> bool {
    matches!(
        k,
        OpKind::Immediate8
            | OpKind::Immediate8_2nd
            | OpKind::Immediate16
            | OpKind::Immediate32
            | OpKind::Immediate64
            | OpKind::Immediate8to16
            | OpKind::Immediate8to32
            | OpKind::Immediate8to64
            | OpKind::Immediate32to64
    )
}

pub(crate) fn has_mem(f: &Fields) -> bool {
    f.k[0] == OpKind::Memory || f.k[1] == OpKind::Memory || f.k[2] == OpKind::Memory || f.k[3] == OpKind::Memory
}

/// Build the `Instruction` the decoder would deliver for these fields.
pub(crate) fn rebuild(f: &Fields) -> Instruction {
    let mut i = Instruction::default();
    i.set_code(f.code);
    i.set_op0_kind(f.k[0]);
    i.set_op1_kind(f.k[1]);
    i.set_op2_kind(f.k[2]);
    i.set_op3_kind(f.k[3]);
    if f.k[0] == OpKind::Register {
        i.set_op0_register(f.r[0]);
    }
    if f.k[1] == OpKind::Register {
        i.set_op1_register(f.r[1]);
    }
    if f.k[2] == OpKind::Register {
        i.set_op2_register(f.r[2]);
    }
    if f.k[3] == OpKind::Register {
        i.set_op3_register(f.r[3]);
    }
    i.set_segment_prefix(f.seg);
    if has_mem(f) {
        i.set_memory_base(f.base);
        i.set_memory_index(f.index);
        i.set_memory_index_scale(f.scale);
        i.set_memory_displ_size(f.displ_size);
        i.set_memory_displacement64(f.displ);
    }
    let mut n = 0;
    while n < 4 {
        match f.k[n] {
            OpKind::Immediate8 => i.set_immediate8(f.imm as u8),
            OpKind::Immediate8_2nd => i.set_immediate8_2nd(f.imm2),
            OpKind::Immediate16 => i.set_immediate16(f.imm as u16),
            OpKind::Immediate32 => i.set_immediate32(f.imm as u32),
            OpKind::Immediate64 => i.set_immediate64(f.imm),
            OpKind::Immediate8to16 => i.set_immediate8to16(f.imm as u16 as i16),
            OpKind::Immediate8to32 => i.set_immediate8to32(f.imm as u32 as i32),
            OpKind::Immediate8to64 => i.set_immediate8to64(f.imm as i64),
            OpKind::Immediate32to64 => i.set_immediate32to64(f.imm as i64),
            OpKind::NearBranch64 => i.set_near_branch64(f.branch),
            OpKind::NearBranch32 => i.set_near_branch32(f.branch as u32),
            OpKind::NearBranch16 => i.set_near_branch16(f.branch as u16),
            _ => {}
        }
        n += 1;
    }
    i.set_len(f.len);
    i.set_ip(f.ip);
    i.set_next_ip(f.ip.wrapping_add(f.len as u64));
    i
}

/// Native only: the fields of a decoded instruction.
#[cfg(not(kani))]
pub(crate) fn fields_of(d: &Instruction) -> Fields {
    let k = [d.op0_kind(), d.op1_kind(), d.op2_kind(), d.op3_kind()];
    let mut f = Fields {
        code: d.code(),
        len: d.len(),
        k,
        r: [d.op0_register(), d.op1_register(), d.op2_register(), d.op3_register()],
        base: d.memory_base(),
        index: d.memory_index(),
        scale: d.memory_index_scale(),
        displ: d.memory_displacement64(),
        displ_size: d.memory_displ_size(),
        seg: d.segment_prefix(),
        imm: 0,
        imm2: 0,
        branch: 0,
        ip: d.ip(),
    };
    let mut n = 0;
    while n < 4 && (n as u32) < d.op_count() {
        match k[n] {
            OpKind::Immediate8 => f.imm = d.immediate8() as u64,
            OpKind::Immediate8_2nd => f.imm2 = d.immediate8_2nd(),
            OpKind::Immediate16 => f.imm = d.immediate16() as u64,
            OpKind::Immediate32 => f.imm = d.immediate32() as u64,
            OpKind::Immediate64 => f.imm = d.immediate64(),
            OpKind::Immediate8to16 => f.imm = d.immediate8to16() as u16 as u64,
            OpKind::Immediate8to32 => f.imm = d.immediate8to32() as u32 as u64,
            OpKind::Immediate8to64 => f.imm = d.immediate8to64() as u64,
            OpKind::Immediate32to64 => f.imm = d.immediate32to64() as u64,
            OpKind::NearBranch64 => f.branch = d.near_branch64(),
            OpKind::NearBranch32 => f.branch = d.near_branch32() as u64,
            OpKind::NearBranch16 => f.branch = d.near_branch16() as u64,
            _ => {}
        }
        n += 1;
    }
    f
}

/// Native only: decode `bytes` at `ip` with the crate's own `decode_at` (real iced decoder).
#[cfg(not(kani))]
pub fn bridge_line(id: &str, bytes: &[u8], ip: u64) -> String {
    use crate::axecutor::Axecutor;
    let mut code = bytes.to_vec();
    // pad so that a truncated witness is seen as such rather than as "no more data"
    let ax = match Axecutor::new(&code, ip, ip) {
        Ok(a) => a,
        Err(e) => return format!("{{\"id\":\"{}\",\"error\":\"new failed\"}}", id),
    };
    code.clear();
    let d = match ax.decode_at(ip) {
        Ok(d) => d,
        Err(_) => return format!("{{\"id\":\"{}\",\"error\":\"undecodable\"}}", id),
    };
    let f = fields_of(&d);
    let rb = rebuild(&f);
    let same = rb == d && rb.len() == d.len() && rb.ip() == d.ip() && rb.next_ip() == d.next_ip();
    let mut unused_ops_ok = true;
    let mut n = d.op_count() as usize;
    while n < 4 {
        // operand slots beyond op_count hold the defaults
        unused_ops_ok &= f.k[n] == OpKind::Register && f.r[n] == Register::None;
        n += 1;
    }
    format!(
        "{{\"id\":\"{}\",\"code\":\"{:?}\",\"mnemonic\":\"{:?}\",\"len\":{},\"consumed_all\":{},\"op_count\":{},\"k\":[\"{:?}\",\"{:?}\",\"{:?}\",\"{:?}\"],\"r\":[\"{:?}\",\"{:?}\",\"{:?}\",\"{:?}\"],\"base\":\"{:?}\",\"index\":\"{:?}\",\"scale\":{},\"displ\":{},\"displ_size\":{},\"seg\":\"{:?}\",\"memseg\":\"{:?}\",\"imm\":{},\"imm2\":{},\"branch\":{},\"ip\":{},\"rebuild_equal\":{},\"unused_ops_default\":{}}}",
        id, f.code, d.mnemonic(), f.len, f.len == bytes.len(), d.op_count(),
        f.k[0], f.k[1], f.k[2], f.k[3], f.r[0], f.r[1], f.r[2], f.r[3],
        f.base, f.index, f.scale, f.displ, f.displ_size, f.seg, d.memory_segment(),
        f.imm, f.imm2, f.branch, f.ip, same, unused_ops_ok
    )
}
