//! C11 — execution loop. The real `step()` / `execute()` run (one poll of the async fn) with
//! the decoder and the mnemonic dispatch replaced by nondeterministic stand-ins: the decoder
//! delivers an instruction of arbitrary length 1..=15 at RIP (or fails), the dispatch performs
//! an arbitrary effect (nothing / write any RIP / ordinary error / normal-finish error). The
//! loop properties therefore hold for every instruction behaviour; the real decoder is out of
//! reach of the model checker (DESIGN 1, P6) and the real handlers are checked one by one.
#[cfg(not(kani))]
use crate::verif::shim as kani;

use crate::axecutor::Axecutor;
use crate::helpers::errors::AxError;
use crate::state::registers::SupportedRegister::RIP;
use crate::verif::util::*;
use iced_x86::{Code, Instruction};

pub(crate) static mut DISPATCH_CALLS: u32 = 0;
pub(crate) static mut DECODE_CALLS: u32 = 0;
pub(crate) static mut LAST_NEXT_IP: u64 = 0;
pub(crate) static mut EFFECT_WROTE_RIP: bool = false;
pub(crate) static mut EFFECT_KIND: u8 = 0;

/// Decoder stand-in: fails, or delivers a NOP of arbitrary length at `rip`.
pub(crate) fn stub_decode_at(_ax: &Axecutor, rip: u64) -> Result<Instruction, AxError> {
    unsafe {
        DECODE_CALLS += 1;
    }
    // native replay: the real error decoration (call_stack(), not stubbed natively) decodes once
    // more after the recorded values are used up
    #[cfg(not(kani))]
    if crate::helpers::vnondet::playback_remaining() == 0 {
        return Err(AxError::from("decode"));
    }
    let fail: bool = kani::any::<bool>();
    if fail {
        return Err(AxError::from("decode"));
    }
    let len: u8 = kani::any::<u8>();
    kani::assume(len >= 1 && len <= 15);
    let mut i = Instruction::default();
    i.set_code(Code::Nopd);
    i.set_len(len as usize);
    i.set_ip(rip);
    i.set_next_ip(rip.wrapping_add(len as u64));
    unsafe {
        LAST_NEXT_IP = rip.wrapping_add(len as u64);
    }
    Ok(i)
}

/// Dispatch stand-in: an arbitrary instruction effect.
pub(crate) fn stub_switch(ax: &mut Axecutor, _i: Instruction) -> Result<(), AxError> {
    unsafe {
        DISPATCH_CALLS += 1;
    }
    let kind: u8 = kani::any::<u8>();
    kani::assume(kind < 4);
    unsafe {
        EFFECT_KIND = kind;
    }
    match kind {
        0 => Ok(()),
        1 => {
            let target: u64 = kani::any::<u64>();
            ax.state.registers.insert(RIP, target);
            unsafe {
                EFFECT_WROTE_RIP = true;
            }
            Ok(())
        }
        2 => Err(AxError::from("instruction failed")),
        _ => Err(AxError::from("normal finish").end_execution()),
    }
}

// the renderers are C18's subject; non-empty results so that step()'s error decoration keeps
// (rather than drops) them
pub(crate) fn stub_trace(_ax: &mut Axecutor) -> Result<String, AxError> {
    Ok(String::from("t"))
}
pub(crate) fn stub_call_stack(_ax: &Axecutor) -> Result<String, AxError> {
    Ok(String::from("c"))
}
pub(crate) fn stub_format_x(_a: std::fmt::Arguments<'_>) -> String {
    String::from("x")
}

#[derive(Clone, Copy, PartialEq)]
pub(crate) struct Mini {
    pub rip: u64,
    pub rax: u64,
    pub rflags: u64,
}
pub(crate) fn mini(ax: &Axecutor) -> Mini {
    Mini {
        rip: *ax.state.registers.get(&RIP).unwrap(),
        rax: *ax.state.registers.get(&crate::state::registers::SupportedRegister::RAX).unwrap(),
        rflags: ax.state.rflags,
    }
}

fn reset_counters() {
    unsafe {
        DISPATCH_CALLS = 0;
        DECODE_CALLS = 0;
        LAST_NEXT_IP = 0;
        EFFECT_WROTE_RIP = false;
        EFFECT_KIND = 0;
    }
    #[cfg(not(kani))]
    crate::helpers::vnondet::set_overrides(Some(stub_decode_at), Some(stub_switch));
}

/// Loop-control state arbitrary: RIP and all registers, code_end_addr, finished, executed
/// count, instruction limit, stack_top. No hooks.
pub(crate) fn mk_loop_state() -> Axecutor {
    // only RIP and RAX exist: step() itself touches no other register, and a register map built
    // without the crate's lazy_static tables keeps the unwind bound (and the step loop) small
    let mut ax = mk_ax_bare();
    ax.state.registers.insert(RIP, kani::any::<u64>());
    ax.state.registers.insert(crate::state::registers::SupportedRegister::RAX, kani::any::<u64>());
    ax.state.rflags = kani::any::<u64>();
    ax.code_end_addr = kani::any::<u64>();
    ax.stack_top = kani::any::<u64>();
    ax.state.finished = kani::any::<bool>();
    ax.state.executed_instructions_count = kani::any::<u64>();
    kani::assume(ax.state.executed_instructions_count < u64::MAX - 8);
    let has_limit: bool = kani::any::<bool>();
    let limit: u64 = kani::any::<u64>();
    ax.state.max_instructions = if has_limit { Some(limit) } else { None };
    ax
}

// @harness id=c11_step props=C11 crash=C11 tier=quick timeout=1500 desc="one step() from arbitrary loop-control state with an arbitrary instruction effect"
#[cfg_attr(kani, kani::proof)]
#[cfg_attr(kani, kani::unwind(8))]
#[cfg_attr(kani, kani::stub(alloc::fmt::format, crate::verif::c11::stub_format_x))]
#[cfg_attr(kani, kani::stub(crate::axecutor::Axecutor::decode_at, crate::verif::c11::stub_decode_at))]
#[cfg_attr(kani, kani::stub(crate::axecutor::Axecutor::switch_instruction_mnemonic, crate::verif::c11::stub_switch))]
#[cfg_attr(kani, kani::stub(crate::axecutor::Axecutor::trace, crate::verif::c11::stub_trace))]
#[cfg_attr(kani, kani::stub(crate::axecutor::Axecutor::call_stack, crate::verif::c11::stub_call_stack))]
#[cfg_attr(kani, kani::stub(<iced_x86::Instruction as std::fmt::Display>::fmt, crate::verif::util::stub_instr_fmt))]
#[cfg_attr(kani, kani::stub(<iced_x86::Code as std::fmt::Debug>::fmt, crate::verif::util::stub_code_fmt))]
#[cfg_attr(kani, kani::stub(<iced_x86::Mnemonic as std::fmt::Debug>::fmt, crate::verif::util::stub_mnemonic_fmt))]
pub(crate) fn c11_step() {
    reset_counters();
    let mut ax = mk_loop_state();
    let s0 = mini(&ax);
    let fin0 = ax.state.finished;
    let cnt0 = ax.state.executed_instructions_count;
    let limit_hit = match ax.state.max_instructions {
        Some(l) => cnt0 >= l,
        None => false,
    };
    let r = block_on(ax.step());
    let s1 = mini(&ax);
    let calls = unsafe { DISPATCH_CALLS };
    let decodes = unsafe { DECODE_CALLS };
    let kind = unsafe { EFFECT_KIND };
    let wrote_rip = unsafe { EFFECT_WROTE_RIP };
    let next_ip = unsafe { LAST_NEXT_IP };
    if fin0 {
        vcheck!("C11|step|fails_after_finish", r.is_err());
        vcheck!("C11|step|after_finish_changes_nothing", s1 == s0 && ax.state.finished && ax.state.executed_instructions_count == cnt0 && calls == 0);
    } else if limit_hit {
        vcheck!("C11|step|fails_at_instruction_limit", r.is_err());
        vcheck!("C11|step|at_limit_changes_nothing", s1 == s0 && !ax.state.finished && ax.state.executed_instructions_count == cnt0 && calls == 0);
    } else if calls == 0 {
        // decode failure
        vcheck!("C11|step|decode_failure_is_an_error", r.is_err() && decodes >= 1);
        vcheck!("C11|step|decode_failure_changes_nothing", s1 == s0 && !ax.state.finished && ax.state.executed_instructions_count == cnt0);
    } else {
        vcheck!("C11|step|exactly_one_instruction_dispatched", calls == 1);
        if kind == 2 {
            vcheck!("C11|step|instruction_error_propagates", r.is_err());
            vcheck!("C11|step|failed_instruction_not_counted", ax.state.executed_instructions_count == cnt0 && !ax.state.finished);
        } else {
            vcheck!("C11|step|success_is_ok", r.is_ok());
            vcheck!("C11|step|count_advances_by_one", ax.state.executed_instructions_count == cnt0 + 1);
            if !wrote_rip {
                vcheck!("C11|step|rip_is_next_instruction", s1.rip == next_ip);
            }
            let expect_fin = kind == 3 || s1.rip == ax.code_end_addr;
            vcheck!("C11|step|finished_exactly_when_end_reached_or_top_level_return", ax.state.finished == expect_fin);
            vcheck!("C11|step|returns_whether_to_continue", r.as_ref().ok() == Some(&!expect_fin));
            // nothing but RIP (and what the instruction did) changes
            let mut frame = s1;
            frame.rip = s0.rip;
            vcheck!("C11|step|loop_itself_touches_only_rip", frame == s0);
        }
    }
    vreach!("C11|step|reach_finish_by_end", !fin0 && r.is_ok() && ax.state.finished && kind == 0);
    vreach!("C11|step|reach_limit", limit_hit && !fin0);
    vreach!("C11|step|reach_normal_finish", kind == 3 && calls == 1);
    std::mem::forget(ax);
}

// Instruction limit N is reached after exactly N instructions: induction on the count. From a
// state with count == k <= N (not finished), a successful step gives count k+1 <= N ... and
// a step is refused exactly when count >= N. Base count 0 is the constructor's.
// @harness id=c11_limit_exact props=C11 crash=C11 tier=quick timeout=1500 desc="limit N: a step is refused iff count >= N, and a successful step raises the count by exactly 1 (induction)"
#[cfg_attr(kani, kani::proof)]
#[cfg_attr(kani, kani::unwind(8))]
#[cfg_attr(kani, kani::stub(alloc::fmt::format, crate::verif::c11::stub_format_x))]
#[cfg_attr(kani, kani::stub(crate::axecutor::Axecutor::decode_at, crate::verif::c11::stub_decode_at))]
#[cfg_attr(kani, kani::stub(crate::axecutor::Axecutor::switch_instruction_mnemonic, crate::verif::c11::stub_switch))]
#[cfg_attr(kani, kani::stub(crate::axecutor::Axecutor::trace, crate::verif::c11::stub_trace))]
#[cfg_attr(kani, kani::stub(crate::axecutor::Axecutor::call_stack, crate::verif::c11::stub_call_stack))]
#[cfg_attr(kani, kani::stub(<iced_x86::Instruction as std::fmt::Display>::fmt, crate::verif::util::stub_instr_fmt))]
#[cfg_attr(kani, kani::stub(<iced_x86::Code as std::fmt::Debug>::fmt, crate::verif::util::stub_code_fmt))]
#[cfg_attr(kani, kani::stub(<iced_x86::Mnemonic as std::fmt::Debug>::fmt, crate::verif::util::stub_mnemonic_fmt))]
pub(crate) fn c11_limit_exact() {
    reset_counters();
    let mut ax = mk_loop_state();
    let n: u64 = kani::any::<u64>();
    ax.set_max_instructions(n);
    ax.state.finished = false;
    let cnt0 = ax.state.executed_instructions_count;
    let r = block_on(ax.step());
    let calls = unsafe { DISPATCH_CALLS };
    if cnt0 >= n {
        vcheck!("C11|limit|refused_once_n_instructions_ran", r.is_err() && calls == 0);
    } else {
        vcheck!("C11|limit|not_refused_before_n", calls == 1 || unsafe { DECODE_CALLS } >= 1);
        vcheck!("C11|limit|count_never_exceeds_n", ax.state.executed_instructions_count <= n);
    }
    vreach!("C11|limit|reach_last_allowed", cnt0 + 1 == n && r.is_ok());
    std::mem::forget(ax);
}

fn same_machine(a: &Axecutor, b: &Axecutor) -> bool {
    mini(a) == mini(b)
        && a.state.finished == b.state.finished
        && a.state.executed_instructions_count == b.state.executed_instructions_count
}

// execute() == loop of step(): both run from two copies of one arbitrary state; the stand-ins
// draw their choices from a shared script so that both runs see the same instruction stream.
pub(crate) static mut SCRIPT: [(bool, u8, u8, u64); 2] = [(false, 1, 0, 0); 2];
pub(crate) static mut SCRIPT_POS_DEC: usize = 0;
pub(crate) static mut SCRIPT_POS_EFF: usize = 0;

pub(crate) fn script_decode_at(_ax: &Axecutor, rip: u64) -> Result<Instruction, AxError> {
    let p = unsafe { SCRIPT_POS_DEC };
    let (fail, len, _k, _t) = if p < 2 { unsafe { SCRIPT[p] } } else { (true, 1, 0, 0) };
    unsafe {
        SCRIPT_POS_DEC = p + 1;
    }
    if fail {
        return Err(AxError::from("decode"));
    }
    let mut i = Instruction::default();
    i.set_code(Code::Nopd);
    i.set_len(len as usize);
    i.set_ip(rip);
    i.set_next_ip(rip.wrapping_add(len as u64));
    Ok(i)
}

pub(crate) fn script_switch(ax: &mut Axecutor, _i: Instruction) -> Result<(), AxError> {
    let p = unsafe { SCRIPT_POS_EFF };
    let (_f, _l, kind, target) = if p < 2 { unsafe { SCRIPT[p] } } else { (true, 1, 2, 0) };
    unsafe {
        SCRIPT_POS_EFF = p + 1;
    }
    match kind {
        0 => Ok(()),
        1 => {
            ax.state.registers.insert(RIP, target);
            Ok(())
        }
        2 => Err(AxError::from("instruction failed")),
        _ => Err(AxError::from("normal finish").end_execution()),
    }
}

// NOTE: "execute() == loop of step()" is NOT decided by a harness: the nested async state
// machines of execute() and step() exhaust memory in the model checker (>30 GB, CBMC 6.11) even
// when the loop is unwound once with a loop-free harness (measured; see DESIGN.md section 10).
// execute() is `while self.step().await? {}`; everything else in C11 is decided on step().

// The top-level return rule on the real RET handler: a return whose slot is the initial stack
// top ends the run normally; any other return is an ordinary instruction.
// @harness id=c11_top_level_ret props=C11 crash=C11 tier=quick timeout=1500 desc="real mnemonic_ret after init_stack: normal finish exactly when the stack is empty"
#[cfg_attr(kani, kani::proof)]
#[cfg_attr(kani, kani::unwind(8))]
#[cfg_attr(kani, kani::stub(alloc::fmt::format, crate::verif::c11::stub_format_x))]
#[cfg_attr(kani, kani::stub(crate::axecutor::Axecutor::collect_mem_error_hints, crate::verif::util::stub_mem_hints))]
#[cfg_attr(kani, kani::stub(<iced_x86::Code as std::fmt::Debug>::fmt, crate::verif::util::stub_code_fmt))]
#[cfg_attr(kani, kani::stub(<iced_x86::Mnemonic as std::fmt::Debug>::fmt, crate::verif::util::stub_mnemonic_fmt))]
#[cfg_attr(kani, kani::stub(<iced_x86::Instruction as std::fmt::Display>::fmt, crate::verif::util::stub_instr_fmt))]
pub(crate) fn c11_top_level_ret() {
    let mut ax = mk_ax_bare();
    // RIP is the address after an instruction of at most 15 bytes: code in the first 16 bytes of
    // the address space is outside the claim (add_trace computes RIP - len)
    let rip: u64 = kani::any::<u64>();
    kani::assume(rip >= 16);
    ax.state.registers.insert(RIP, rip);
    ax.state.registers.insert(crate::state::registers::SupportedRegister::RSP, kani::any::<u64>());
    let st = ax.init_stack(32);
    vcheck!("C11|top_ret|init_stack_ok", st.is_ok());
    // depth: how many calls deep the guest is (return addresses pushed by the real CALL)
    let depth: u8 = kani::any::<u8>();
    kani::assume(depth <= 1);
    let mut i = Instruction::default();
    i.set_code(Code::Call_rel32_64);
    i.set_op0_kind(iced_x86::OpKind::NearBranch64);
    i.set_near_branch64(kani::any::<u64>());
    i.set_len(5);
    if depth == 1 {
        let c = ax.mnemonic_call(i);
        vcheck!("C11|top_ret|call_ok", c.is_ok());
    }
    let mut r = Instruction::default();
    r.set_code(Code::Retnq);
    r.set_len(1);
    // RIP is pre-advanced past the RET, as step() does
    let rip2: u64 = kani::any::<u64>();
    kani::assume(rip2 >= 16);
    ax.state.registers.insert(RIP, rip2);
    let res = ax.mnemonic_ret(r);
    if depth == 0 {
        vcheck!("C11|top_ret|empty_stack_return_finishes_normally", match &res { Err(e) => e.signals_normal_finish, Ok(()) => false });
    } else {
        vcheck!("C11|top_ret|nested_return_is_ordinary", res.is_ok());
    }
    vreach!("C11|top_ret|reach");
    std::mem::forget(ax);
}
