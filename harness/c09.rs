//! C09 — memory permissions are enforced on every access path. API level: an arbitrary
//! two-area layout whose permission masks are arbitrary (0..=7 each); one read, write or
//! fetch with arbitrary address. Instruction level (load, store, read-modify-write, implicit
//! stack stores/loads, 128-bit) lives in the instruction harnesses (insn_*.rs, tagged C09).
#[cfg(not(kani))]
use crate::verif::shim as kani;

use crate::axecutor::Axecutor;
use crate::state::memory::{PROT_EXEC, PROT_READ, PROT_WRITE};
use crate::verif::c08::{mk_layout, Layout, LA, LB};
use crate::verif::util::*;

// @harness id=c09_read props=C09 crash=C09 tier=quick desc="mem_read_bytes succeeds iff the range is mapped AND the area is readable, for all 8x8 masks"
#[cfg_attr(kani, kani::proof)]
#[cfg_attr(kani, kani::unwind(20))]
#[cfg_attr(kani, kani::stub(alloc::fmt::format, crate::verif::util::stub_format))]
#[cfg_attr(kani, kani::stub(crate::axecutor::Axecutor::collect_mem_error_hints, crate::verif::util::stub_mem_hints))]
pub(crate) fn c09_read() {
    let mut ax = mk_ax_bare();
    let lay = mk_layout(&mut ax, true);
    let addr: u64 = kani::any::<u64>();
    let len: u64 = kani::any::<u64>();
    kani::assume(len >= 1);
    let r = ax.mem_read_bytes(addr, len);
    match lay.locate(addr, len) {
        Some((area, _)) => {
            let readable = lay.access(area) & PROT_READ != 0;
            vcheck!("C09|api_read|allowed_iff_readable", r.is_ok() == readable);
        }
        None => {
            vcheck!("C09|api_read|unmapped_fails", r.is_err());
        }
    }
    vcheck!("C09|api_read|memory_unchanged", lay.matches(&ax));
    vreach!("C09|api_read|reach_denied", r.is_err() && lay.locate(addr, len).is_some());
    vreach!("C09|api_read|reach_write_only_area", lay.acc_a == PROT_WRITE && lay.locate(addr, len) == Some((0, 2)));
}

// @harness id=c09_write props=C09 crash=C09 tier=quick desc="mem_write_bytes succeeds iff mapped AND writable; a denied write changes nothing"
#[cfg_attr(kani, kani::proof)]
#[cfg_attr(kani, kani::unwind(20))]
#[cfg_attr(kani, kani::stub(alloc::fmt::format, crate::verif::util::stub_format))]
#[cfg_attr(kani, kani::stub(crate::axecutor::Axecutor::collect_mem_error_hints, crate::verif::util::stub_mem_hints))]
pub(crate) fn c09_write() {
    let mut ax = mk_ax_bare();
    let mut lay = mk_layout(&mut ax, true);
    let addr: u64 = kani::any::<u64>();
    let mut buf = [0u8; 8];
    let mut i = 0;
    while i < 8 {
        buf[i] = kani::any::<u8>();
        i += 1;
    }
    let n: usize = kani::any::<usize>();
    kani::assume(n >= 1 && n <= 8);
    let r = ax.mem_write_bytes(addr, &buf[..n]);
    match lay.locate(addr, n as u64) {
        Some((area, off)) => {
            let writable = lay.access(area) & PROT_WRITE != 0;
            vcheck!("C09|api_write|allowed_iff_writable", r.is_ok() == writable);
            if writable {
                let mut i = 0;
                while i < n {
                    lay.set_byte(area, off + i, buf[i]);
                    i += 1;
                }
            }
        }
        None => {
            vcheck!("C09|api_write|unmapped_fails", r.is_err());
        }
    }
    vcheck!("C09|api_write|denied_write_changes_nothing", lay.matches(&ax));
    vreach!("C09|api_write|reach_denied", r.is_err() && lay.locate(addr, n as u64).is_some());
    vreach!("C09|api_write|reach_ok", r.is_ok());
}

// @harness id=c09_fetch props=C09 crash=C09 tier=quick desc="instruction fetch (mem_read_executable_bytes, the prefix of decode_at) needs PROT_EXEC"
#[cfg_attr(kani, kani::proof)]
#[cfg_attr(kani, kani::unwind(20))]
#[cfg_attr(kani, kani::stub(alloc::fmt::format, crate::verif::util::stub_format))]
#[cfg_attr(kani, kani::stub(crate::axecutor::Axecutor::collect_mem_error_hints, crate::verif::util::stub_mem_hints))]
pub(crate) fn c09_fetch() {
    let mut ax = mk_ax_bare();
    let lay = mk_layout(&mut ax, true);
    let addr: u64 = kani::any::<u64>();
    let r = ax.mem_read_executable_bytes(addr);
    match lay.locate(addr, 1) {
        Some((area, off)) => {
            let exec = lay.access(area) & PROT_EXEC != 0;
            vcheck!("C09|fetch|allowed_iff_executable", r.is_ok() == exec);
            if let Ok(v) = &r {
                let area_len = if area == 0 { LA } else { LB };
                vcheck!("C09|fetch|returns_rest_of_area", v.len() == area_len - off);
                let mut i = 0;
                while i < LA && i < v.len() && off + i < area_len {
                    vcheck!("C09|fetch|returns_stored_bytes", v[i] == lay.byte(area, off + i));
                    i += 1;
                }
            }
        }
        None => {
            vcheck!("C09|fetch|unmapped_fails", r.is_err());
        }
    }
    vcheck!("C09|fetch|memory_unchanged", lay.matches(&ax));
    vreach!("C09|fetch|reach_data_not_executable", r.is_err() && lay.locate(addr, 1).is_some() && lay.acc_a == 3);
    vreach!("C09|fetch|reach_ok", r.is_ok());
}

// @harness id=c09_prot_then_access props=C09 crash=C09 tier=quick desc="mem_prot changes the mask that later reads/writes/fetches are checked against"
#[cfg_attr(kani, kani::proof)]
#[cfg_attr(kani, kani::unwind(20))]
#[cfg_attr(kani, kani::stub(alloc::fmt::format, crate::verif::util::stub_format))]
#[cfg_attr(kani, kani::stub(crate::axecutor::Axecutor::collect_mem_error_hints, crate::verif::util::stub_mem_hints))]
pub(crate) fn c09_prot_then_access() {
    let mut ax = mk_ax_bare();
    let lay = mk_layout(&mut ax, true);
    let prot: u32 = kani::any::<u32>();
    kani::assume(prot <= 7);
    let p = ax.mem_prot(lay.a, prot);
    vcheck!("C09|prot|accepted", p.is_ok());
    let off: u64 = kani::any::<u64>();
    kani::assume(off < LA as u64);
    let rd = ax.mem_read_8(lay.a + off);
    let wr = ax.mem_write_8(lay.a + off, 0x5a);
    let fx = ax.mem_read_executable_bytes(lay.a + off);
    vcheck!("C09|prot|read_follows_new_mask", rd.is_ok() == (prot & PROT_READ != 0));
    vcheck!("C09|prot|write_follows_new_mask", wr.is_ok() == (prot & PROT_WRITE != 0));
    vcheck!("C09|prot|fetch_follows_new_mask", fx.is_ok() == (prot & PROT_EXEC != 0));
    // the other area keeps its own mask
    let rb = ax.mem_read_8(lay.b);
    vcheck!("C09|prot|other_area_keeps_mask", rb.is_ok() == (lay.acc_b & PROT_READ != 0));
    vreach!("C09|prot|reach");
}

// NOTE: `Axecutor::new` itself (RNG draws for 32 registers + symbol table + trace + area creation) does
// not finish symbolic execution (20 min, 40 GB): the constructor's "code is R+X, not W" is therefore
// decided as mem_prot(R|X) followed by accesses (c09_prot_then_access), not on new() itself.
