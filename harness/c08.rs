//! C08 — guest memory is a consistent little-endian byte store with strict bounds.
//! One-step induction over the area list: from an arbitrary two-area layout (starts anywhere
//! in the 64-bit space, including at 0 and ending exactly at 2^64) with arbitrary contents,
//! one API call with arbitrary (address, length / data) is compared with a reference byte map.
#[cfg(not(kani))]
use crate::verif::shim as kani;

use crate::axecutor::Axecutor;
use crate::state::memory::{PROT_READ, PROT_WRITE};
use crate::verif::util::*;

pub(crate) const LA: usize = 8;
pub(crate) const LB: usize = 5;

pub(crate) struct Layout {
    pub a: u64,
    pub b: u64,
    pub da: [u8; LA],
    pub db: [u8; LB],
    pub acc_a: u32,
    pub acc_b: u32,
}

fn sym_arr<const N: usize>() -> [u8; N] {
    let mut d = [0u8; N];
    let mut i = 0;
    while i < N {
        d[i] = kani::any::<u8>();
        i += 1;
    }
    d
}

/// Two disjoint areas of 8 and 5 bytes with arbitrary starts such that start + length <= 2^64.
pub(crate) fn mk_layout(ax: &mut Axecutor, sym_access: bool) -> Layout {
    let a: u64 = kani::any::<u64>();
    let b: u64 = kani::any::<u64>();
    kani::assume(a <= u64::MAX - (LA as u64 - 1));
    kani::assume(b <= u64::MAX - (LB as u64 - 1));
    // disjoint (no wrap-around possible by the two assumptions above)
    kani::assume(a.wrapping_sub(b) >= LB as u64 && b.wrapping_sub(a) >= LA as u64);
    let da: [u8; LA] = sym_arr::<LA>();
    let db: [u8; LB] = sym_arr::<LB>();
    let (acc_a, acc_b) = if sym_access {
        let x: u32 = kani::any::<u32>();
        let y: u32 = kani::any::<u32>();
        kani::assume(x <= 7 && y <= 7);
        (x, y)
    } else {
        (PROT_READ | PROT_WRITE, PROT_READ | PROT_WRITE)
    };
    push_area(ax, a, da.to_vec(), acc_a);
    push_area(ax, b, db.to_vec(), acc_b);
    Layout {
        a,
        b,
        da,
        db,
        acc_a,
        acc_b,
    }
}

impl Layout {
    /// Which area (0 = A, 1 = B) fully contains [addr, addr+len), len >= 1; offset inside it.
    pub(crate) fn locate(&self, addr: u64, len: u64) -> Option<(usize, usize)> {
        if len == 0 {
            return None;
        }
        let oa = addr.wrapping_sub(self.a);
        if addr >= self.a && oa < LA as u64 && len <= LA as u64 - oa {
            return Some((0, oa as usize));
        }
        let ob = addr.wrapping_sub(self.b);
        if addr >= self.b && ob < LB as u64 && len <= LB as u64 - ob {
            return Some((1, ob as usize));
        }
        None
    }
    pub(crate) fn byte(&self, area: usize, off: usize) -> u8 {
        if area == 0 {
            self.da[off]
        } else {
            self.db[off]
        }
    }
    pub(crate) fn access(&self, area: usize) -> u32 {
        if area == 0 {
            self.acc_a
        } else {
            self.acc_b
        }
    }
    /// True when the machine's areas hold exactly this layout's bytes (and nothing else changed).
    pub(crate) fn matches(&self, ax: &Axecutor) -> bool {
        if ax.state.memory.len() != 2 {
            return false;
        }
        let ma = &ax.state.memory[0];
        let mb = &ax.state.memory[1];
        let mut ok = ma.verif_start() == self.a
            && mb.verif_start() == self.b
            && ma.verif_length() == LA as u64
            && mb.verif_length() == LB as u64
            && ma.verif_data().len() == LA
            && mb.verif_data().len() == LB
            && ma.verif_access() == self.acc_a
            && mb.verif_access() == self.acc_b;
        if !ok {
            return false;
        }
        let mut i = 0;
        while i < LA {
            ok &= ma.verif_data()[i] == self.da[i];
            i += 1;
        }
        let mut i = 0;
        while i < LB {
            ok &= mb.verif_data()[i] == self.db[i];
            i += 1;
        }
        ok
    }
    pub(crate) fn set_byte(&mut self, area: usize, off: usize, v: u8) {
        if area == 0 {
            self.da[off] = v;
        } else {
            self.db[off] = v;
        }
    }
}

// @harness id=c08_read_bytes props=C08 crash=C08 tier=quick desc="mem_read_bytes(address,length) for all address/length over an arbitrary 2-area layout"
#[cfg_attr(kani, kani::proof)]
#[cfg_attr(kani, kani::unwind(20))]
#[cfg_attr(kani, kani::stub(alloc::fmt::format, crate::verif::util::stub_format))]
#[cfg_attr(kani, kani::stub(crate::axecutor::Axecutor::collect_mem_error_hints, crate::verif::util::stub_mem_hints))]
pub(crate) fn c08_read_bytes() {
    let mut ax = mk_ax_bare();
    let lay = mk_layout(&mut ax, false);
    let addr: u64 = kani::any::<u64>();
    let len: u64 = kani::any::<u64>();
    let r = ax.mem_read_bytes(addr, len);
    if len >= 1 {
        match lay.locate(addr, len) {
            Some((area, off)) => {
                vcheck!("C08|read_bytes|mapped_access_succeeds", r.is_ok());
                if let Ok(v) = &r {
                    vcheck!("C08|read_bytes|returns_requested_length", v.len() as u64 == len);
                    let mut i = 0;
                    while i < LA && (i as u64) < len && i < v.len() {
                        vcheck!("C08|read_bytes|returns_stored_bytes", v[i] == lay.byte(area, off + i));
                        i += 1;
                    }
                }
            }
            None => {
                vcheck!("C08|read_bytes|unmapped_or_overrun_fails", r.is_err());
            }
        }
    }
    vcheck!("C08|read_bytes|memory_unchanged", lay.matches(&ax));
    vreach!("C08|read_bytes|reach_ok", r.is_ok() && len == 5);
    vreach!("C08|read_bytes|reach_overrun", r.is_err() && addr == lay.a);
    vreach!("C08|read_bytes|reach_top", lay.a == u64::MAX - 7 && addr == u64::MAX);
}

// @harness id=c08_write_bytes props=C08 crash=C08 tier=quick desc="mem_write_bytes(address,data[0..=16]) for all address/data over an arbitrary 2-area layout"
#[cfg_attr(kani, kani::proof)]
#[cfg_attr(kani, kani::unwind(20))]
#[cfg_attr(kani, kani::stub(alloc::fmt::format, crate::verif::util::stub_format))]
#[cfg_attr(kani, kani::stub(crate::axecutor::Axecutor::collect_mem_error_hints, crate::verif::util::stub_mem_hints))]
pub(crate) fn c08_write_bytes() {
    let mut ax = mk_ax_bare();
    let mut lay = mk_layout(&mut ax, false);
    let addr: u64 = kani::any::<u64>();
    let buf: [u8; 16] = sym_arr::<16>();
    let n: usize = kani::any::<usize>();
    kani::assume(n <= 16);
    let r = ax.mem_write_bytes(addr, &buf[..n]);
    if n >= 1 {
        match lay.locate(addr, n as u64) {
            Some((area, off)) => {
                vcheck!("C08|write_bytes|mapped_access_succeeds", r.is_ok());
                let mut i = 0;
                while i < n && i < LA {
                    lay.set_byte(area, off + i, buf[i]);
                    i += 1;
                }
            }
            None => {
                vcheck!("C08|write_bytes|unmapped_or_overrun_fails", r.is_err());
            }
        }
    }
    // exactly the addressed bytes changed on success; nothing changed on failure
    if n >= 1 || r.is_err() {
        vcheck!("C08|write_bytes|only_addressed_bytes_change", lay.matches(&ax));
    }
    vreach!("C08|write_bytes|reach_ok", r.is_ok() && n == 8);
    vreach!("C08|write_bytes|reach_err", r.is_err() && n == 3);
}

fn typed_read_body(w: u8) {
    let mut ax = mk_ax_bare();
    let lay = mk_layout(&mut ax, false);
    let addr: u64 = kani::any::<u64>();
    let width: u64 = 1u64 << w; // 1,2,4,8,16
    let got: Result<u128, crate::helpers::errors::AxError> = match w {
        0 => ax.mem_read_8(addr).map(|v| v as u128),
        1 => ax.mem_read_16(addr).map(|v| v as u128),
        2 => ax.mem_read_32(addr).map(|v| v as u128),
        3 => ax.mem_read_64(addr).map(|v| v as u128),
        _ => ax.mem_read_128(addr),
    };
    match lay.locate(addr, width) {
        Some((area, off)) => {
            let mut expect: u128 = 0;
            let mut i = 0;
            while i < LA && (i as u64) < width {
                expect |= (lay.byte(area, off + i) as u128) << (8 * i);
                i += 1;
            }
            vcheck!("C08|typed_read|mapped_access_succeeds", got.is_ok());
            vcheck!("C08|typed_read|little_endian_value", got.ok() == Some(expect));
        }
        None => {
            vcheck!("C08|typed_read|unmapped_or_overrun_fails", got.is_err());
        }
    }
    vcheck!("C08|typed_read|memory_unchanged", lay.matches(&ax));
    vreach!("C08|typed_read|reach_mapped", w == 4 || lay.locate(addr, width).is_some());
    vreach!("C08|typed_read|reach_unmapped", lay.locate(addr, width).is_none());
}

fn typed_write_body(w: u8) {
    let mut ax = mk_ax_bare();
    let mut lay = mk_layout(&mut ax, false);
    let addr: u64 = kani::any::<u64>();
    let val: u128 = kani::any::<u128>();
    let width: u64 = 1u64 << w;
    if w < 4 {
        kani::assume(val <= u64::MAX as u128);
    }
    let r = match w {
        0 => ax.mem_write_8(addr, val as u64),
        1 => ax.mem_write_16(addr, val as u64),
        2 => ax.mem_write_32(addr, val as u64),
        3 => ax.mem_write_64(addr, val as u64),
        _ => ax.mem_write_128(addr, val),
    };
    let fits = w >= 3 || (val >> (8 * width)) == 0;
    match lay.locate(addr, width) {
        Some((area, off)) if fits => {
            vcheck!("C08|typed_write|mapped_access_succeeds", r.is_ok());
            let mut i = 0;
            while i < LA && (i as u64) < width {
                lay.set_byte(area, off + i, (val >> (8 * i)) as u8);
                i += 1;
            }
        }
        _ => {
            vcheck!("C08|typed_write|invalid_access_or_value_fails", r.is_err());
        }
    }
    vcheck!("C08|typed_write|only_addressed_bytes_change", lay.matches(&ax));
    vreach!("C08|typed_write|reach_ok", w == 4 || r.is_ok());
    vreach!("C08|typed_write|reach_err", r.is_err());
}

// @harness id=c08_typed_read8 props=C08 crash=C08 tier=quick desc="mem_read_8 at every address over an arbitrary 2-area layout vs the little-endian byte map"
#[cfg_attr(kani, kani::proof)]
#[cfg_attr(kani, kani::unwind(20))]
#[cfg_attr(kani, kani::stub(alloc::fmt::format, crate::verif::util::stub_format))]
#[cfg_attr(kani, kani::stub(crate::axecutor::Axecutor::collect_mem_error_hints, crate::verif::util::stub_mem_hints))]
pub(crate) fn c08_typed_read8() {
    typed_read_body(0);
}

// @harness id=c08_typed_write8 props=C08 crash=C08 tier=quick desc="mem_write_8 at every address over an arbitrary 2-area layout vs the little-endian byte map"
#[cfg_attr(kani, kani::proof)]
#[cfg_attr(kani, kani::unwind(20))]
#[cfg_attr(kani, kani::stub(alloc::fmt::format, crate::verif::util::stub_format))]
#[cfg_attr(kani, kani::stub(crate::axecutor::Axecutor::collect_mem_error_hints, crate::verif::util::stub_mem_hints))]
pub(crate) fn c08_typed_write8() {
    typed_write_body(0);
}

// @harness id=c08_typed_read16 props=C08 crash=C08 tier=quick desc="mem_read_16 at every address over an arbitrary 2-area layout vs the little-endian byte map"
#[cfg_attr(kani, kani::proof)]
#[cfg_attr(kani, kani::unwind(20))]
#[cfg_attr(kani, kani::stub(alloc::fmt::format, crate::verif::util::stub_format))]
#[cfg_attr(kani, kani::stub(crate::axecutor::Axecutor::collect_mem_error_hints, crate::verif::util::stub_mem_hints))]
pub(crate) fn c08_typed_read16() {
    typed_read_body(1);
}

// @harness id=c08_typed_write16 props=C08 crash=C08 tier=quick desc="mem_write_16 at every address over an arbitrary 2-area layout vs the little-endian byte map"
#[cfg_attr(kani, kani::proof)]
#[cfg_attr(kani, kani::unwind(20))]
#[cfg_attr(kani, kani::stub(alloc::fmt::format, crate::verif::util::stub_format))]
#[cfg_attr(kani, kani::stub(crate::axecutor::Axecutor::collect_mem_error_hints, crate::verif::util::stub_mem_hints))]
pub(crate) fn c08_typed_write16() {
    typed_write_body(1);
}

// @harness id=c08_typed_read32 props=C08 crash=C08 tier=quick desc="mem_read_32 at every address over an arbitrary 2-area layout vs the little-endian byte map"
#[cfg_attr(kani, kani::proof)]
#[cfg_attr(kani, kani::unwind(20))]
#[cfg_attr(kani, kani::stub(alloc::fmt::format, crate::verif::util::stub_format))]
#[cfg_attr(kani, kani::stub(crate::axecutor::Axecutor::collect_mem_error_hints, crate::verif::util::stub_mem_hints))]
pub(crate) fn c08_typed_read32() {
    typed_read_body(2);
}

// @harness id=c08_typed_write32 props=C08 crash=C08 tier=quick desc="mem_write_32 at every address over an arbitrary 2-area layout vs the little-endian byte map"
#[cfg_attr(kani, kani::proof)]
#[cfg_attr(kani, kani::unwind(20))]
#[cfg_attr(kani, kani::stub(alloc::fmt::format, crate::verif::util::stub_format))]
#[cfg_attr(kani, kani::stub(crate::axecutor::Axecutor::collect_mem_error_hints, crate::verif::util::stub_mem_hints))]
pub(crate) fn c08_typed_write32() {
    typed_write_body(2);
}

// @harness id=c08_typed_read64 props=C08 crash=C08 tier=quick desc="mem_read_64 at every address over an arbitrary 2-area layout vs the little-endian byte map"
#[cfg_attr(kani, kani::proof)]
#[cfg_attr(kani, kani::unwind(20))]
#[cfg_attr(kani, kani::stub(alloc::fmt::format, crate::verif::util::stub_format))]
#[cfg_attr(kani, kani::stub(crate::axecutor::Axecutor::collect_mem_error_hints, crate::verif::util::stub_mem_hints))]
pub(crate) fn c08_typed_read64() {
    typed_read_body(3);
}

// @harness id=c08_typed_write64 props=C08 crash=C08 tier=quick desc="mem_write_64 at every address over an arbitrary 2-area layout vs the little-endian byte map"
#[cfg_attr(kani, kani::proof)]
#[cfg_attr(kani, kani::unwind(20))]
#[cfg_attr(kani, kani::stub(alloc::fmt::format, crate::verif::util::stub_format))]
#[cfg_attr(kani, kani::stub(crate::axecutor::Axecutor::collect_mem_error_hints, crate::verif::util::stub_mem_hints))]
pub(crate) fn c08_typed_write64() {
    typed_write_body(3);
}

// @harness id=c08_typed_read128 props=C08 crash=C08 tier=quick desc="mem_read_128 at every address over an arbitrary 2-area layout vs the little-endian byte map"
#[cfg_attr(kani, kani::proof)]
#[cfg_attr(kani, kani::unwind(20))]
#[cfg_attr(kani, kani::stub(alloc::fmt::format, crate::verif::util::stub_format))]
#[cfg_attr(kani, kani::stub(crate::axecutor::Axecutor::collect_mem_error_hints, crate::verif::util::stub_mem_hints))]
pub(crate) fn c08_typed_read128() {
    typed_read_body(4);
}

// @harness id=c08_typed_write128 props=C08 crash=C08 tier=quick desc="mem_write_128 at every address over an arbitrary 2-area layout vs the little-endian byte map"
#[cfg_attr(kani, kani::proof)]
#[cfg_attr(kani, kani::unwind(20))]
#[cfg_attr(kani, kani::stub(alloc::fmt::format, crate::verif::util::stub_format))]
#[cfg_attr(kani, kani::stub(crate::axecutor::Axecutor::collect_mem_error_hints, crate::verif::util::stub_mem_hints))]
pub(crate) fn c08_typed_write128() {
    typed_write_body(4);
}

// The error-message helper runs on every failed access; its address arithmetic must not
// crash for extreme addresses and lengths. Here it is NOT stubbed (str::to_lowercase is).
// @harness id=c08_error_path props=C08 crash=C08 tier=quick desc="failed reads/writes at extreme (address,length): the real collect_mem_error_hints must not overflow"
#[cfg_attr(kani, kani::proof)]
#[cfg_attr(kani, kani::unwind(20))]
#[cfg_attr(kani, kani::stub(alloc::fmt::format, crate::verif::util::stub_format))]
#[cfg_attr(kani, kani::stub(str::to_lowercase, crate::verif::util::stub_lower))]
pub(crate) fn c08_error_path() {
    let mut ax = mk_ax_bare();
    let a: u64 = kani::any::<u64>();
    kani::assume(a <= u64::MAX - (LA as u64 - 1));
    let da: [u8; LA] = sym_arr::<LA>();
    push_area(&mut ax, a, da.to_vec(), PROT_READ | PROT_WRITE);
    let addr: u64 = kani::any::<u64>();
    let len: u64 = kani::any::<u64>();
    let which: bool = kani::any::<bool>();
    let inside = addr >= a && addr - a < LA as u64 && len <= LA as u64 - (addr - a);
    kani::assume(!inside);
    if which {
        let r = ax.mem_read_bytes(addr, len);
        if len >= 1 {
            vcheck!("C08|error_path|read_fails", r.is_err());
        }
    } else {
        let buf = [0u8; 3];
        let r = ax.mem_write_bytes(addr, &buf);
        vcheck!("C08|error_path|write_fails", r.is_err() || (addr >= a && addr - a <= 5));
    }
    vreach!("C08|error_path|reach_wrap", which && addr > u64::MAX - 4 && len > 8);
    vreach!("C08|error_path|reach_top_area", a == u64::MAX - 7);
}
