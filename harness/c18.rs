//! C18 — rendering is total. The trace/call-stack *content* obligations live in the generated
//! control-transfer harnesses (labels C18|<Code>:<shape>|...); here the renderers `trace()` and
//! `call_stack()` run on an arbitrary recorded state (any nesting level, incl. negative after
//! unmatched returns) with the decoder and the formatter stubbed: their arguments
//! (`"  ".repeat(level as usize)`, `len() - 1`) are still evaluated for real.
#[cfg(not(kani))]
use crate::verif::shim as kani;

use crate::helpers::trace::{TraceEntry, TraceVariant};
use crate::state::registers::SupportedRegister::RIP;
use crate::verif::c11::*;
use crate::verif::util::*;

// @harness id=c18_render props=C18 crash=C18 tier=quick timeout=1200 desc="trace() and call_stack() on a state with one arbitrary trace entry (any negative or small (<= 8) nesting level, any count) and 0..=1 call-stack entries"
#[cfg_attr(kani, kani::proof)]
#[cfg_attr(kani, kani::unwind(12))]
#[cfg_attr(kani, kani::stub(alloc::fmt::format, crate::verif::c11::stub_format_x))]
#[cfg_attr(kani, kani::stub(crate::axecutor::Axecutor::decode_at, crate::verif::c11::stub_decode_at))]
#[cfg_attr(kani, kani::stub(<iced_x86::Instruction as std::fmt::Display>::fmt, crate::verif::util::stub_instr_fmt))]
#[cfg_attr(kani, kani::stub(<iced_x86::Code as std::fmt::Debug>::fmt, crate::verif::util::stub_code_fmt))]
pub(crate) fn c18_render() {
    #[cfg(not(kani))]
    crate::helpers::vnondet::set_overrides(Some(stub_decode_at), None);
    let mut ax = mk_ax_bare();
    ax.state.registers.insert(RIP, kani::any::<u64>());
    let v: u8 = kani::any::<u8>();
    kani::assume(v < 3);
    ax.state.trace.push(TraceEntry {
        instr_ip: kani::any::<u64>(),
        target: kani::any::<u64>(),
        variant: match v {
            0 => TraceVariant::Jump,
            1 => TraceVariant::Call,
            _ => TraceVariant::Return,
        },
        level: {
            // any negative level (what unmatched returns produce) and small positive ones: the indentation
            // loop of str::repeat is unwound 12 times (deeper nesting is outside the claim)
            let l: i16 = kani::any::<i16>();
            kani::assume(l <= 8);
            l
        },
        count: kani::any::<u64>(),
    });
    if kani::any::<bool>() {
        ax.state.call_stack.push(kani::any::<u64>());
    }
    let t = ax.trace();
    vcheck!("C18|render|trace_renders", t.is_ok());
    let c = ax.call_stack();
    vcheck!("C18|render|call_stack_renders", c.is_ok());
    vreach!("C18|render|reach_negative_level", ax.state.trace[0].level < 0);
    std::mem::forget(ax);
}
