//! Native stand-in for the `kani` crate, so that the harness sources compile unchanged in
//! a `--cfg ax_verif` build and can be replayed on concrete values with the real std
//! containers, the real formatter and no stubs. Values come from the playback queue of
//! hook H4 (`crate::helpers::vnondet`), which is also what the emulator's own RNG sites use.
pub use crate::helpers::vnondet::Nondet;

pub struct AssumeFailed;

pub fn any<T: Nondet>() -> T {
    crate::helpers::vnondet::any::<T>()
}

pub fn any_where<T: Nondet, F: FnOnce(&T) -> bool>(f: F) -> T {
    let v = any::<T>();
    assume(f(&v));
    v
}

pub fn assume(cond: bool) {
    if !cond {
        std::panic::panic_any(AssumeFailed);
    }
}

macro_rules! cover {
    ($($t:tt)*) => {};
}
pub(crate) use cover;
