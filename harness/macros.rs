//! `vcheck!(label, cond)`: one labelled obligation. The label is "<property>|<harness-local
//! key>|<field>"; the runner keys verdicts and known findings by it. `vcheck_off!` is what
//! the runner rewrites the other labels to when it isolates one obligation for replay.
macro_rules! vcheck {
    ($label:literal, $cond:expr) => {
        assert!($cond, $label);
    };
}
macro_rules! vcheck_off {
    ($label:literal, $cond:expr) => {
        let _ = $cond;
    };
}
/// Reachability witness: must be SATISFIED, otherwise the harness is vacuous.
macro_rules! vreach {
    ($label:literal) => {
        kani::cover!(true, $label);
    };
    ($label:literal, $cond:expr) => {
        kani::cover!($cond, $label);
    };
}
