//! Runtime support for the generated instruction harnesses: the symbolic machine the handler
//! runs on and the capture of its architectural state into the reference's `Mach`.
#[cfg(not(kani))]
use crate::verif::shim as kani;

use crate::axecutor::Axecutor;
use crate::state::registers::SupportedRegister;
use crate::verif::ib::Fields;
use crate::verif::util::*;
use crate::verif::x86ref::*;

/// Every register, flag and segment base symbolic; RIP already advanced to the next
/// instruction (as `step()` does before dispatch); optionally area D: DLEN symbolic bytes at
/// DBASE with an arbitrary (or RW) permission mask. `stack_top` is arbitrary.
pub(crate) fn mk_machine(f: &Fields, mem_on: bool, sym_acc: bool, nxmm: usize) -> (Axecutor, Mach) {
    let mut ax = mk_ax_n(nxmm);
    let next = f.ip.wrapping_add(f.len as u64);
    ax.state.registers.insert(SupportedRegister::RIP, next);
    ax.stack_top = kani::any::<u64>();
    let mut mem = [0u8; DLEN];
    let mut acc = 0u32;
    if mem_on {
        let mut i = 0;
        while i < DLEN {
            mem[i] = kani::any::<u8>();
            i += 1;
        }
        acc = if sym_acc {
            let a: u32 = kani::any::<u32>();
            kani::assume(a <= 7);
            a
        } else {
            3
        };
        push_area(&mut ax, DBASE, mem.to_vec(), acc);
    }
    let s = snap(&ax);
    let pre = Mach {
        r: s.r,
        x: s.x,
        rflags: s.rflags,
        fs: s.fs,
        gs: s.gs,
        mem,
        mem_on,
        mem_acc: acc,
    };
    (ax, pre)
}

pub(crate) fn capture(ax: &Axecutor, pre: &Mach) -> Mach {
    let s = snap(ax);
    let mut mem = [0u8; DLEN];
    let mut acc = 0;
    if pre.mem_on && ax.state.memory.len() >= 1 {
        let a = &ax.state.memory[0];
        acc = a.verif_access();
        let mut i = 0;
        while i < DLEN {
            if i < a.verif_data().len() {
                mem[i] = a.verif_data()[i];
            }
            i += 1;
        }
    }
    Mach {
        r: s.r,
        x: s.x,
        rflags: s.rflags,
        fs: s.fs,
        gs: s.gs,
        mem,
        mem_on: pre.mem_on,
        mem_acc: acc,
    }
}
