//! Runtime support for the generated instruction harnesses: the symbolic machine the handler
//! runs on and the capture of its architectural state into the reference's `Mach`.
#[cfg(not(kani))]
use crate::verif::shim as kani;

use crate::axecutor::Axecutor;
use crate::state::registers::SupportedRegister;
use crate::verif::ib::Fields;
use crate::verif::util::*;
use crate::verif::x86ref::*;

/// Every register, flag and segment base symbolic; RIP already advanced to the next
/// instruction (as `step()` does before dispatch); optionally area D: DLEN symbolic bytes at
/// DBASE with an arbitrary (or RW) permission mask. `stack_top` is arbitrary.
pub(crate) fn mk_machine(f: &Fields, mem_on: bool, sym_acc: bool, nxmm: usize) -> (Axecutor, Mach) {
    let mut ax = mk_ax_n(nxmm);
    let next = f.ip.wrapping_add(f.len as u64);
    ax.state.registers.insert(SupportedRegister::RIP, next);
    ax.stack_top = kani::any::<u64>();
    let mut mem = [0u8; DLEN];
    let mut acc = 0u32;
    if mem_on {
        let mut i = 0;
        while i < DLEN {
            mem[i] = kani::any::<u8>();
            i += 1;
        }
        acc = if sym_acc {
            let a: u32 = kani::any::<u32>();
            kani::assume(a <= 7);
            // write-only masks (2, 6) do not exist on the CPU the reference models (a writable page is
            // readable) and the emulator's store helpers read their destination first; the API-level
            // C09 harnesses cover all 8 masks, the instruction harnesses the 6 CPU-realisable ones
            kani::assume(a & 2 == 0 || a & 1 != 0);
            a
        } else {
            3
        };
        push_area(&mut ax, DBASE, mem.to_vec(), acc);
    }
    let s = snap(&ax);
    let pre = Mach {
        r: s.r,
        x: s.x,
        rflags: s.rflags,
        fs: s.fs,
        gs: s.gs,
        mem,
        mem_on,
        mem_acc: acc,
    };
    (ax, pre)
}

pub(crate) fn capture(ax: &Axecutor, pre: &Mach) -> Mach {
    let s = snap(ax);
    let mut mem = [0u8; DLEN];
    let mut acc = 0;
    if pre.mem_on && ax.state.memory.len() >= 1 {
        let a = &ax.state.memory[0];
        acc = a.verif_access();
        let mut i = 0;
        while i < DLEN {
            if i < a.verif_data().len() {
                mem[i] = a.verif_data()[i];
            }
            i += 1;
        }
    }
    Mach {
        r: s.r,
        x: s.x,
        rflags: s.rflags,
        fs: s.fs,
        gs: s.gs,
        mem,
        mem_on: pre.mem_on,
        mem_acc: acc,
    }
}

/// Bit i set = Mach::r[i] is named by the instruction (explicit operand, address component
/// or implicit operand of the operation class). Over-approximates the architectural read and
/// write sets, which only weakens the determinism precondition, never the check.
pub(crate) fn named_regs(f: &Fields, op: Op) -> u32 {
    let mut m: u32 = 1; // RIP
    let mut n = 0;
    while n < 4 {
        if f.k[n] == iced_x86::OpKind::Register {
            if let Some((i, _, _)) = gpr(f.r[n]) {
                m |= 1 << i;
            }
        }
        n += 1;
    }
    if let Some((i, _, _)) = gpr(f.base) {
        m |= 1 << i;
    }
    if let Some((i, _, _)) = gpr(f.index) {
        m |= 1 << i;
    }
    match op {
        Op::Mul | Op::Imul1 | Op::Div | Op::Idiv | Op::DivFault | Op::IdivFault | Op::Cdq | Op::Cqo | Op::Cwd | Op::Cdqe => {
            m |= (1 << RAX_I) | (1 << RDX_I)
        }
        Op::Push | Op::Pop | Op::CallRel | Op::CallRm | Op::Ret => m |= 1 << RSP_I,
        Op::Jrcxz | Op::Jecxz => m |= 1 << RCX_I,
        Op::Cpuid => m |= (1 << RAX_I) | (1 << RBX_I) | (1 << RCX_I) | (1 << RDX_I),
        _ => {}
    }
    m
}

/// A second machine that agrees with the first on every explicit input — the registers in
/// `written` (a symbolic set that contains every register the instruction names), flags,
/// segment bases, memory, stack_top — and holds independent arbitrary values in every other
/// general-purpose register (what the constructor's RNG leaves in unwritten registers).
pub(crate) fn mk_twin(f: &Fields, op: Op, pre: &Mach, stack_top: u64) -> (Axecutor, Mach, u32) {
    let named = named_regs(f, op);
    let written: u32 = kani::any::<u32>() & 0x1ffff;
    kani::assume(written & named == named);
    let mut b = mk_ax_bare();
    let mut r = [0u64; 17];
    let mut i = 0;
    while i < 17 {
        r[i] = if written & (1 << i) != 0 { pre.r[i] } else { kani::any::<u64>() };
        b.state.registers.insert(REG17[i], r[i]);
        i += 1;
    }
    let mut i = 0;
    while i < 16 {
        b.state.xmm_registers.insert(XMMS[i], pre.x[i]);
        i += 1;
    }
    b.state.rflags = pre.rflags;
    b.state.fs = pre.fs;
    b.state.gs = pre.gs;
    b.stack_top = stack_top;
    if pre.mem_on {
        push_area(&mut b, DBASE, pre.mem.to_vec(), pre.mem_acc);
    }
    let mut p = *pre;
    p.r = r;
    (b, p, written)
}

/// Bitmask of differences between two runs that must not differ.
pub(crate) const T_OUTCOME: u32 = 1;
pub(crate) const T_REGS: u32 = 2;
pub(crate) const T_FLAGS: u32 = 4;
pub(crate) const T_MEM: u32 = 8;
pub(crate) const T_XMM: u32 = 16;
pub(crate) const T_TRACE: u32 = 32;

pub(crate) fn twin_diff(
    ra: &Result<(), crate::helpers::errors::AxError>,
    rb: &Result<(), crate::helpers::errors::AxError>,
    a: &Axecutor,
    b: &Axecutor,
    pa: &Mach,
    pb: &Mach,
    written: u32,
) -> u32 {
    let mut bad = 0;
    let ea = match ra {
        Ok(()) => 0,
        Err(e) => {
            if e.signals_normal_finish {
                2
            } else {
                1
            }
        }
    };
    let eb = match rb {
        Ok(()) => 0,
        Err(e) => {
            if e.signals_normal_finish {
                2
            } else {
                1
            }
        }
    };
    if ea != eb {
        bad |= T_OUTCOME;
    }
    let mut i = 0;
    while i < 17 {
        if written & (1 << i) != 0 && pa.r[i] != pb.r[i] {
            bad |= T_REGS;
        }
        i += 1;
    }
    let mut i = 0;
    while i < 16 {
        if pa.x[i] != pb.x[i] {
            bad |= T_XMM;
        }
        i += 1;
    }
    if pa.rflags != pb.rflags || pa.fs != pb.fs || pa.gs != pb.gs {
        bad |= T_FLAGS;
    }
    let mut i = 0;
    while i < DLEN {
        if pa.mem[i] != pb.mem[i] {
            bad |= T_MEM;
        }
        i += 1;
    }
    if a.state.trace.len() != b.state.trace.len()
        || a.state.call_stack.len() != b.state.call_stack.len()
        || a.state.executed_instructions_count != b.state.executed_instructions_count
        || a.state.finished != b.state.finished
    {
        bad |= T_TRACE;
    } else {
        if a.state.trace.len() == 1 && a.state.trace[0] != b.state.trace[0] {
            bad |= T_TRACE;
        }
        if a.state.call_stack.len() == 1 && a.state.call_stack[0] != b.state.call_stack[0] {
            bad |= T_TRACE;
        }
    }
    bad
}

// ---------------------------------------------------------------------------------------
// C18: trace and call stack. Pre-state: a trace whose last entry is arbitrary (add_trace only
// looks at the last entry) and a call stack of 0 or 1 arbitrary entries; after one control-
// transfer handler both are compared with an independent tracer.
// ---------------------------------------------------------------------------------------
use crate::helpers::trace::{TraceEntry, TraceVariant};

pub(crate) struct TracePre {
    pub last: TraceEntry,
    pub cs_len: usize,
    pub cs0: u64,
}

pub(crate) const TR_TRACE: u32 = 1;
pub(crate) const TR_STACK: u32 = 2;

pub(crate) fn mk_trace_state(ax: &mut Axecutor, symbolic: bool) -> TracePre {
    // The fully symbolic last entry (which exercises add_trace's level and run-length rules for every
    // predecessor) is used for one representative form per transfer kind; the other forms start
    // from a fixed predecessor (a call at nesting level 0), which still decides "exactly the taken
    // transfer is recorded, with its source and target". (A symbolic predecessor in every branch
    // harness multiplies the solver time by 6-8.)
    let last = if symbolic {
        let v: u8 = kani::any::<u8>();
        kani::assume(v < 3);
        let level: i16 = kani::any::<i16>();
        // nesting depth within +-1000 (the level counter is an i16; deeper nesting is outside the claim)
        kani::assume(level > -1000 && level < 1000);
        let count: u64 = kani::any::<u32>() as u64;
        kani::assume(count >= 1);
        TraceEntry {
            instr_ip: kani::any::<u64>(),
            target: kani::any::<u64>(),
            variant: match v {
                0 => TraceVariant::Jump,
                1 => TraceVariant::Call,
                _ => TraceVariant::Return,
            },
            level,
            count,
        }
    } else {
        TraceEntry {
            instr_ip: 0,
            target: 0x40_1000,
            variant: TraceVariant::Call,
            level: 0,
            count: 1,
        }
    };
    ax.state.trace.push(last.clone());
    let has_cs: bool = if symbolic { kani::any::<bool>() } else { true };
    let cs0: u64 = if symbolic { kani::any::<u64>() } else { 0x40_1000 };
    if has_cs {
        ax.state.call_stack.push(cs0);
    }
    TracePre {
        last,
        cs_len: if has_cs { 1 } else { 0 },
        cs0,
    }
}

/// kind: 0 jump, 1 call, 2 return. `taken`: the transfer happened. Independent tracer:
/// a taken transfer appends (ip, target, kind, level) with level = last.level +1 after a call,
/// -1 after a return, unchanged after a jump — except that a jump equal to the last entry
/// (same source, target, kind, level) only increments its count; an untaken branch records
/// nothing; calls push their target on the call stack, returns pop it (no-op when empty).
pub(crate) fn trace_diff(ax: &Axecutor, tp: &TracePre, kind: u8, taken: bool, ip: u64, target: u64) -> u32 {
    let mut bad = 0;
    let t = &ax.state.trace;
    let want_level = match tp.last.variant {
        TraceVariant::Call => tp.last.level + 1,
        TraceVariant::Return => tp.last.level - 1,
        TraceVariant::Jump => tp.last.level,
    };
    if !taken {
        if t.len() != 1 || t[0] != tp.last {
            bad |= TR_TRACE;
        }
    } else if kind == 0
        && tp.last.variant == TraceVariant::Jump
        && tp.last.instr_ip == ip
        && tp.last.target == target
    {
        let mut e = tp.last.clone();
        e.count += 1;
        if t.len() != 1 || t[0] != e {
            bad |= TR_TRACE;
        }
    } else {
        let e = TraceEntry {
            instr_ip: ip,
            target,
            variant: match kind {
                0 => TraceVariant::Jump,
                1 => TraceVariant::Call,
                _ => TraceVariant::Return,
            },
            level: want_level,
            count: 1,
        };
        if t.len() != 2 || t[0] != tp.last || t[1] != e {
            bad |= TR_TRACE;
        }
    }
    let cs = &ax.state.call_stack;
    let ok = match (kind, taken) {
        (1, true) => cs.len() == tp.cs_len + 1 && cs[tp.cs_len] == target && (tp.cs_len == 0 || cs[0] == tp.cs0),
        (2, true) => {
            if tp.cs_len == 0 {
                cs.len() == 0
            } else {
                cs.len() == 0
            }
        }
        _ => cs.len() == tp.cs_len && (tp.cs_len == 0 || cs[0] == tp.cs0),
    };
    if !ok {
        bad |= TR_STACK;
    }
    bad
}
