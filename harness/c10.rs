//! C10 — memory areas never overlap; allocation and resizing respect existing areas.
//! One-step induction on the area-list invariant M (pairwise disjoint, length == data.len(),
//! start + length <= 2^64): from an arbitrary list of 0..=3 areas satisfying M, one
//! area-management call with arbitrary arguments must preserve M and behave as specified.
#[cfg(not(kani))]
use crate::verif::shim as kani;

use crate::axecutor::Axecutor;
use crate::state::memory::{PROT_READ, PROT_WRITE};
use crate::verif::util::*;

pub(crate) const LENS: [usize; 3] = [8, 5, 3];

#[derive(Clone, Copy)]
pub(crate) struct Pre {
    pub n: usize,
    pub lens: [usize; 3],
    pub s: [u64; 3],
    pub d: [[u8; 8]; 3],
    pub acc: [u32; 3],
}

fn disjoint(s1: u64, l1: u64, s2: u64, l2: u64) -> bool {
    // intervals [s, s+l) with s+l <= 2^64 (computed in u128)
    let e1 = s1 as u128 + l1 as u128;
    let e2 = s2 as u128 + l2 as u128;
    l1 == 0 || l2 == 0 || e1 <= s2 as u128 || e2 <= s1 as u128
}

/// 0..=3 areas (8, 5 and 3 bytes) at arbitrary disjoint starts, arbitrary contents and masks.
pub(crate) fn mk_pre(ax: &mut Axecutor) -> Pre {
    mk_pre_lens(ax, 3, LENS)
}

/// `n` areas with the given concrete lengths (each <= 8) at arbitrary disjoint starts.
pub(crate) fn mk_pre_lens(ax: &mut Axecutor, n: usize, lens: [usize; 3]) -> Pre {
    let mut p = Pre {
        n,
        lens,
        s: [0; 3],
        d: [[0; 8]; 3],
        acc: [0; 3],
    };
    let mut i = 0;
    while i < 3 {
        p.s[i] = kani::any::<u64>();
        kani::assume(p.s[i] as u128 + lens[i] as u128 <= 1u128 << 64);
        let mut j = 0;
        while j < lens[i] {
            p.d[i][j] = kani::any::<u8>();
            j += 1;
        }
        p.acc[i] = kani::any::<u32>();
        kani::assume(p.acc[i] <= 7);
        i += 1;
    }
    kani::assume(disjoint(p.s[0], lens[0] as u64, p.s[1], lens[1] as u64));
    kani::assume(disjoint(p.s[0], lens[0] as u64, p.s[2], lens[2] as u64));
    kani::assume(disjoint(p.s[1], lens[1] as u64, p.s[2], lens[2] as u64));
    let mut i = 0;
    while i < 3 {
        if i < n {
            push_area(ax, p.s[i], p.d[i][..lens[i]].to_vec(), p.acc[i]);
        }
        i += 1;
    }
    p
}

impl Pre {
    /// The first `n` areas of the machine are exactly the pre-state areas.
    pub(crate) fn old_areas_unchanged(&self, ax: &Axecutor, skip: usize) -> bool {
        if ax.state.memory.len() < self.n {
            return false;
        }
        let mut ok = true;
        let mut i = 0;
        while i < 3 {
            if i < self.n && i != skip {
                let m = &ax.state.memory[i];
                ok &= m.verif_start() == self.s[i]
                    && m.verif_length() == self.lens[i] as u64
                    && m.verif_data().len() == self.lens[i]
                    && m.verif_access() == self.acc[i];
                if ok {
                    let mut j = 0;
                    while j < self.lens[i] {
                        ok &= m.verif_data()[j] == self.d[i][j];
                        j += 1;
                    }
                }
            }
            i += 1;
        }
        ok
    }
    pub(crate) fn overlaps_any(&self, start: u64, len: u64, skip: usize) -> bool {
        let mut hit = false;
        let mut i = 0;
        while i < 3 {
            if i < self.n && i != skip {
                hit |= !disjoint(start, len, self.s[i], self.lens[i] as u64);
            }
            i += 1;
        }
        hit
    }
}

/// Invariant M on the machine's current area list (at most 4 areas in these harnesses).
pub(crate) fn inv_m(ax: &Axecutor) -> bool {
    let n = ax.state.memory.len();
    if n > 4 {
        return false;
    }
    let mut ok = true;
    let mut i = 0;
    while i < 4 {
        if i < n {
            let a = &ax.state.memory[i];
            ok &= a.verif_length() == a.verif_data().len() as u64;
            ok &= a.verif_start() as u128 + a.verif_length() as u128 <= 1u128 << 64;
            let mut j = 0;
            while j < 4 {
                if j < n && j > i {
                    let b = &ax.state.memory[j];
                    ok &= disjoint(a.verif_start(), a.verif_length(), b.verif_start(), b.verif_length());
                }
                j += 1;
            }
        }
        i += 1;
    }
    ok
}

fn sym_buf16() -> [u8; 16] {
    // no loop: some harnesses here run with a very small unwind bound
    [
        kani::any::<u8>(), kani::any::<u8>(), kani::any::<u8>(), kani::any::<u8>(),
        kani::any::<u8>(), kani::any::<u8>(), kani::any::<u8>(), kani::any::<u8>(),
        kani::any::<u8>(), kani::any::<u8>(), kani::any::<u8>(), kani::any::<u8>(),
        kani::any::<u8>(), kani::any::<u8>(), kani::any::<u8>(), kani::any::<u8>(),
    ]
}

// @harness id=c10_init_area props=C10 crash=C10 tier=quick desc="mem_init_area_named(start, data[0..=16]) against 0..=3 arbitrary existing areas: overlap rejected, M preserved"
#[cfg_attr(kani, kani::proof)]
#[cfg_attr(kani, kani::unwind(20))]
#[cfg_attr(kani, kani::stub(alloc::fmt::format, crate::verif::util::stub_format))]
pub(crate) fn c10_init_area() {
    let mut ax = mk_ax_bare();
    let pre = mk_pre(&mut ax);
    let start: u64 = kani::any::<u64>();
    let buf = sym_buf16();
    let len: usize = kani::any::<usize>();
    kani::assume(len <= 16);
    let named: bool = kani::any::<bool>();
    let name = if named { Some(String::from("x")) } else { None };
    let r = ax.mem_init_area_named(start, buf[..len].to_vec(), name);
    let overlap = pre.overlaps_any(start, len as u64, 99);
    let wraps = start as u128 + len as u128 > 1u128 << 64;
    if overlap {
        vcheck!("C10|init_area|overlap_rejected", r.is_err());
    }
    if wraps {
        vcheck!("C10|init_area|wrapping_range_rejected", r.is_err());
    }
    if len >= 1 && !overlap && !wraps {
        vcheck!("C10|init_area|free_range_accepted", r.is_ok());
    }
    if len == 0 && !pre.overlaps_any(start, 1, 99) {
        vcheck!("C10|init_area|empty_range_outside_areas_accepted", r.is_ok());
    }
    if r.is_ok() {
        vcheck!("C10|init_area|one_area_added", ax.state.memory.len() == pre.n + 1);
        if ax.state.memory.len() == pre.n + 1 {
            let m = &ax.state.memory[pre.n];
            vcheck!("C10|init_area|new_area_extent", m.verif_start() == start && m.verif_length() == len as u64 && m.verif_data().len() == len);
            vcheck!("C10|init_area|new_area_read_write", m.verif_access() == (PROT_READ | PROT_WRITE));
            let mut i = 0;
            while i < 16 {
                if i < len && i < m.verif_data().len() {
                    vcheck!("C10|init_area|new_area_holds_data", m.verif_data()[i] == buf[i]);
                }
                i += 1;
            }
        }
    } else {
        vcheck!("C10|init_area|rejection_adds_nothing", ax.state.memory.len() == pre.n);
    }
    vcheck!("C10|init_area|existing_areas_untouched", pre.old_areas_unchanged(&ax, 99));
    vcheck!("C10|init_area|invariant_preserved", inv_m(&ax));
    vreach!("C10|init_area|reach_enclosing", pre.n >= 2 && start < pre.s[1] && (start as u128 + len as u128) > pre.s[1] as u128 + 5);
    vreach!("C10|init_area|reach_abutting_ok", pre.n >= 1 && r.is_ok() && start == pre.s[0].wrapping_add(8));
    vreach!("C10|init_area|reach_inside", pre.n == 3 && start > pre.s[0] && start < pre.s[0].wrapping_add(8) && len == 1);
}

// @harness id=c10_init_zero props=C10 crash=C10 tier=quick desc="mem_init_zero / mem_init_zero_named(start, length<=16): zero-filled, overlap rejected, M preserved"
#[cfg_attr(kani, kani::proof)]
#[cfg_attr(kani, kani::unwind(20))]
#[cfg_attr(kani, kani::stub(alloc::fmt::format, crate::verif::util::stub_format))]
pub(crate) fn c10_init_zero() {
    let mut ax = mk_ax_bare();
    let pre = mk_pre(&mut ax);
    let start: u64 = kani::any::<u64>();
    let len: u64 = kani::any::<u64>();
    kani::assume(len <= 16);
    let named: bool = kani::any::<bool>();
    let r = if named {
        ax.mem_init_zero_named(start, len, String::from("z"))
    } else {
        ax.mem_init_zero(start, len)
    };
    let overlap = pre.overlaps_any(start, len, 99);
    let wraps = start as u128 + len as u128 > 1u128 << 64;
    if overlap {
        vcheck!("C10|init_zero|overlap_rejected", r.is_err());
    }
    if wraps {
        vcheck!("C10|init_zero|wrapping_range_rejected", r.is_err());
    }
    if len >= 1 && !overlap && !wraps {
        vcheck!("C10|init_zero|free_range_accepted", r.is_ok());
    }
    if len == 0 && !pre.overlaps_any(start, 1, 99) {
        vcheck!("C10|init_zero|empty_range_outside_areas_accepted", r.is_ok());
    }
    if r.is_ok() {
        vcheck!("C10|init_zero|one_area_added", ax.state.memory.len() == pre.n + 1);
        if ax.state.memory.len() == pre.n + 1 {
            let m = &ax.state.memory[pre.n];
            vcheck!("C10|init_zero|new_area_extent", m.verif_start() == start && m.verif_length() == len && m.verif_data().len() as u64 == len);
            let mut i = 0;
            while i < 16 {
                if (i as u64) < len && i < m.verif_data().len() {
                    vcheck!("C10|init_zero|new_area_zero_filled", m.verif_data()[i] == 0);
                }
                i += 1;
            }
        }
    } else {
        vcheck!("C10|init_zero|rejection_adds_nothing", ax.state.memory.len() == pre.n);
    }
    vcheck!("C10|init_zero|existing_areas_untouched", pre.old_areas_unchanged(&ax, 99));
    vcheck!("C10|init_zero|invariant_preserved", inv_m(&ax));
    vreach!("C10|init_zero|reach_ok", r.is_ok() && pre.n == 3);
    vreach!("C10|init_zero|reach_partial_from_below", pre.n >= 1 && start < pre.s[0] && start.wrapping_add(len) > pre.s[0] && len >= 2);
}

// @harness id=c10_resize props=C10 crash=C10 tier=quick desc="mem_resize_section(start, new<=16): succeeds exactly when the new extent hits no other area; keeps prefix, zero-fills growth"
#[cfg_attr(kani, kani::proof)]
#[cfg_attr(kani, kani::unwind(20))]
#[cfg_attr(kani, kani::stub(alloc::fmt::format, crate::verif::util::stub_format))]
pub(crate) fn c10_resize() {
    let mut ax = mk_ax_bare();
    let pre = mk_pre(&mut ax);
    let start: u64 = kani::any::<u64>();
    let new: u64 = kani::any::<u64>();
    kani::assume(new <= 16);
    let r = ax.mem_resize_section(start, new);
    // which existing area (if any) starts at `start`? (disjointness makes it unique for the
    // non-empty areas used here)
    let mut k = 99usize;
    let mut i = 0;
    while i < 3 {
        if i < pre.n && pre.s[i] == start && k == 99 {
            k = i;
        }
        i += 1;
    }
    if k == 99 {
        vcheck!("C10|resize|unknown_start_rejected", r.is_err());
        vcheck!("C10|resize|unknown_start_changes_nothing", pre.old_areas_unchanged(&ax, 99) && ax.state.memory.len() == pre.n);
    } else {
        let collides = pre.overlaps_any(start, new, k);
        let wraps = start as u128 + new as u128 > 1u128 << 64;
        vcheck!("C10|resize|succeeds_iff_no_collision", r.is_ok() == (!collides && !wraps));
        vcheck!("C10|resize|other_areas_untouched", pre.old_areas_unchanged(&ax, k) && ax.state.memory.len() == pre.n);
        if ax.state.memory.len() == pre.n {
            let m = &ax.state.memory[k];
            if r.is_ok() {
                vcheck!("C10|resize|new_extent", m.verif_start() == start && m.verif_length() == new && m.verif_data().len() as u64 == new);
                let mut j = 0;
                while j < 16 {
                    if (j as u64) < new && j < m.verif_data().len() {
                        if j < pre.lens[k] {
                            vcheck!("C10|resize|common_prefix_kept", m.verif_data()[j] == pre.d[k][j]);
                        } else {
                            vcheck!("C10|resize|growth_zero_filled", m.verif_data()[j] == 0);
                        }
                    }
                    j += 1;
                }
                vcheck!("C10|resize|mask_kept", m.verif_access() == pre.acc[k]);
            } else {
                vcheck!("C10|resize|failed_resize_changes_nothing", pre.old_areas_unchanged(&ax, 99));
            }
        }
    }
    vcheck!("C10|resize|invariant_preserved", inv_m(&ax));
    vreach!("C10|resize|reach_grow_ok", k != 99 && r.is_ok() && new > pre.lens[if k == 99 { 0 } else { k }] as u64);
    vreach!("C10|resize|reach_shrink", k == 0 && new == 2);
    vreach!("C10|resize|reach_collision", k == 1 && pre.overlaps_any(start, new, 1));
}

// @harness id=c10_prot props=C10 crash=C10 tier=quick desc="mem_prot(start, prot): changes only the mask of the area starting there; invalid mask / unknown start rejected"
#[cfg_attr(kani, kani::proof)]
#[cfg_attr(kani, kani::unwind(20))]
#[cfg_attr(kani, kani::stub(alloc::fmt::format, crate::verif::util::stub_format))]
pub(crate) fn c10_prot() {
    let mut ax = mk_ax_bare();
    let mut pre = mk_pre(&mut ax);
    let start: u64 = kani::any::<u64>();
    let prot: u32 = kani::any::<u32>();
    let r = ax.mem_prot(start, prot);
    let mut k = 99usize;
    let mut i = 0;
    while i < 3 {
        if i < pre.n && pre.s[i] == start && k == 99 {
            k = i;
        }
        i += 1;
    }
    vcheck!("C10|prot|ok_iff_valid_mask_and_known_start", r.is_ok() == (prot <= 7 && k != 99));
    if r.is_ok() && k != 99 {
        pre.acc[k] = prot;
    }
    vcheck!("C10|prot|only_the_mask_changes", pre.old_areas_unchanged(&ax, 99) && ax.state.memory.len() == pre.n);
    vcheck!("C10|prot|invariant_preserved", inv_m(&ax));
    vreach!("C10|prot|reach_ok", r.is_ok() && k == 2);
    vreach!("C10|prot|reach_bad_mask", prot == 8 && k == 0);
}

// ---------------------------------------------------------------------------------------
// Contract models of the area-creation functions, used (as Kani stubs) only by the retry-
// loop harnesses below. Assume-guarantee: the contract is exactly what c10_init_area /
// c10_init_zero establish for the real functions (reject iff the range intersects an
// existing area or wraps, or is empty with its start inside an area; otherwise append the
// area, RW). With the real functions inlined the retry loops exhaust memory (>48 GB).
// ---------------------------------------------------------------------------------------
fn model_rejects(ax: &Axecutor, start: u64, len: u64) -> bool {
    if start as u128 + len as u128 > 1u128 << 64 {
        return true;
    }
    let mut hit = false;
    let n = ax.state.memory.len();
    let mut i = 0;
    while i < 4 {
        if i < n {
            let a = &ax.state.memory[i];
            let inside = start >= a.verif_start() && ((start - a.verif_start()) < a.verif_length());
            hit |= inside || !disjoint(start, len, a.verif_start(), a.verif_length());
        }
        i += 1;
    }
    hit
}
pub(crate) fn model_init_area_named(
    ax: &mut Axecutor,
    start: u64,
    data: Vec<u8>,
    name: Option<String>,
) -> Result<(), crate::helpers::errors::AxError> {
    if model_rejects(ax, start, data.len() as u64) {
        return Err(crate::helpers::errors::AxError::from("overlap"));
    }
    let len = data.len() as u64;
    let area = crate::state::memory::MemoryArea::verif_new(name, start, len, data, PROT_READ | PROT_WRITE);
    // append without Vec::push: its (infeasible, but syntactically present) growth path makes the
    // buffer pointer a case split that doubles with every loop iteration of the caller
    let n = ax.state.memory.len();
    assert!(n < ax.state.memory.capacity());
    unsafe {
        std::ptr::write(ax.state.memory.as_mut_ptr().add(n), area);
        ax.state.memory.set_len(n + 1);
    }
    Ok(())
}
pub(crate) fn model_init_area(ax: &mut Axecutor, start: u64, data: Vec<u8>) -> Result<(), crate::helpers::errors::AxError> {
    model_init_area_named(ax, start, data, None)
}
pub(crate) fn model_init_zero(ax: &mut Axecutor, start: u64, length: u64) -> Result<(), crate::helpers::errors::AxError> {
    model_init_area_named(ax, start, vec![0; length as usize], None)
}
pub(crate) fn model_init_zero_named(
    ax: &mut Axecutor,
    start: u64,
    length: u64,
    name: String,
) -> Result<(), crate::helpers::errors::AxError> {
    model_init_area_named(ax, start, vec![0; length as usize], Some(name))
}

/// Common post-condition of the "anywhere" allocators.
fn check_fresh(ax: &Axecutor, pre: &Pre, start: u64, len: u64) -> bool {
    if ax.state.memory.len() != pre.n + 1 {
        return false;
    }
    let m = &ax.state.memory[pre.n];
    m.verif_start() == start
        && m.verif_length() == len
        && m.verif_data().len() as u64 == len
        && !pre.overlaps_any(start, len, 99)
}

fn zero_anywhere_body(len: u64) {
    let mut ax = mk_ax_bare();
    let pre = mk_pre_lens(&mut ax, 2, [3, 2, 0]);
    let r = ax.mem_init_zero_anywhere(len);
    vcheck!("C10|zero_anywhere|succeeds", r.is_ok());
    if let Ok(start) = r {
        vcheck!("C10|zero_anywhere|fresh_range_of_requested_length", check_fresh(&ax, &pre, start, len));
        if ax.state.memory.len() == pre.n + 1 {
            let m = &ax.state.memory[pre.n];
            let mut i = 0;
            while i < 8 {
                if i < m.verif_data().len() {
                    vcheck!("C10|zero_anywhere|zero_filled", m.verif_data()[i] == 0);
                }
                i += 1;
            }
        }
    }
    vcheck!("C10|zero_anywhere|existing_areas_untouched", pre.old_areas_unchanged(&ax, 99));
    vcheck!("C10|zero_anywhere|invariant_preserved", inv_m(&ax));
    vreach!("C10|zero_anywhere|reach_retry", pre.s[0] == 0x1000 && pre.s[1] == 0x1003 && r.is_ok());
    std::mem::forget(ax); // no drop glue: freeing merged heap pointers explodes the formula
}

// @harness id=c10_zero_anywhere_len0 props=C10 crash=C10 tier=quick unwind_label=C10|zero_anywhere|terminates desc="mem_init_zero_anywhere(0): terminates, fresh zero-filled range of that length, M preserved"
#[cfg_attr(kani, kani::proof)]
#[cfg_attr(kani, kani::unwind(10))]
#[cfg_attr(kani, kani::stub(alloc::fmt::format, crate::verif::util::stub_format))]
#[cfg_attr(kani, kani::stub(crate::axecutor::Axecutor::mem_init_area_named, crate::verif::c10::model_init_area_named))]
#[cfg_attr(kani, kani::stub(crate::axecutor::Axecutor::mem_init_area, crate::verif::c10::model_init_area))]
#[cfg_attr(kani, kani::stub(crate::axecutor::Axecutor::mem_init_zero, crate::verif::c10::model_init_zero))]
#[cfg_attr(kani, kani::stub(crate::axecutor::Axecutor::mem_init_zero_named, crate::verif::c10::model_init_zero_named))]
pub(crate) fn c10_zero_anywhere_len0() {
    zero_anywhere_body(0);
}

// @harness id=c10_zero_anywhere_len1 props=C10 crash=C10 tier=quick unwind_label=C10|zero_anywhere|terminates desc="mem_init_zero_anywhere(1): terminates, fresh zero-filled range of that length, M preserved"
#[cfg_attr(kani, kani::proof)]
#[cfg_attr(kani, kani::unwind(10))]
#[cfg_attr(kani, kani::stub(alloc::fmt::format, crate::verif::util::stub_format))]
#[cfg_attr(kani, kani::stub(crate::axecutor::Axecutor::mem_init_area_named, crate::verif::c10::model_init_area_named))]
#[cfg_attr(kani, kani::stub(crate::axecutor::Axecutor::mem_init_area, crate::verif::c10::model_init_area))]
#[cfg_attr(kani, kani::stub(crate::axecutor::Axecutor::mem_init_zero, crate::verif::c10::model_init_zero))]
#[cfg_attr(kani, kani::stub(crate::axecutor::Axecutor::mem_init_zero_named, crate::verif::c10::model_init_zero_named))]
pub(crate) fn c10_zero_anywhere_len1() {
    zero_anywhere_body(1);
}

// @harness id=c10_zero_anywhere_len2 props=C10 crash=C10 tier=quick unwind_label=C10|zero_anywhere|terminates desc="mem_init_zero_anywhere(2): terminates, fresh zero-filled range of that length, M preserved"
#[cfg_attr(kani, kani::proof)]
#[cfg_attr(kani, kani::unwind(10))]
#[cfg_attr(kani, kani::stub(alloc::fmt::format, crate::verif::util::stub_format))]
#[cfg_attr(kani, kani::stub(crate::axecutor::Axecutor::mem_init_area_named, crate::verif::c10::model_init_area_named))]
#[cfg_attr(kani, kani::stub(crate::axecutor::Axecutor::mem_init_area, crate::verif::c10::model_init_area))]
#[cfg_attr(kani, kani::stub(crate::axecutor::Axecutor::mem_init_zero, crate::verif::c10::model_init_zero))]
#[cfg_attr(kani, kani::stub(crate::axecutor::Axecutor::mem_init_zero_named, crate::verif::c10::model_init_zero_named))]
pub(crate) fn c10_zero_anywhere_len2() {
    zero_anywhere_body(2);
}

// @harness id=c10_zero_anywhere_len4 props=C10 crash=C10 tier=quick unwind_label=C10|zero_anywhere|terminates desc="mem_init_zero_anywhere(4): terminates, fresh zero-filled range of that length, M preserved"
#[cfg_attr(kani, kani::proof)]
#[cfg_attr(kani, kani::unwind(10))]
#[cfg_attr(kani, kani::stub(alloc::fmt::format, crate::verif::util::stub_format))]
#[cfg_attr(kani, kani::stub(crate::axecutor::Axecutor::mem_init_area_named, crate::verif::c10::model_init_area_named))]
#[cfg_attr(kani, kani::stub(crate::axecutor::Axecutor::mem_init_area, crate::verif::c10::model_init_area))]
#[cfg_attr(kani, kani::stub(crate::axecutor::Axecutor::mem_init_zero, crate::verif::c10::model_init_zero))]
#[cfg_attr(kani, kani::stub(crate::axecutor::Axecutor::mem_init_zero_named, crate::verif::c10::model_init_zero_named))]
pub(crate) fn c10_zero_anywhere_len4() {
    zero_anywhere_body(4);
}

// @harness id=c10_anywhere props=C10 crash=C10 tier=quick unwind_label=C10|anywhere|terminates desc="mem_init_anywhere(data[0..=8]): terminates, fresh range holding the supplied bytes, M preserved"
#[cfg_attr(kani, kani::proof)]
#[cfg_attr(kani, kani::unwind(10))]
#[cfg_attr(kani, kani::stub(alloc::fmt::format, crate::verif::util::stub_format))]
#[cfg_attr(kani, kani::stub(crate::axecutor::Axecutor::mem_init_area_named, crate::verif::c10::model_init_area_named))]
#[cfg_attr(kani, kani::stub(crate::axecutor::Axecutor::mem_init_area, crate::verif::c10::model_init_area))]
#[cfg_attr(kani, kani::stub(crate::axecutor::Axecutor::mem_init_zero, crate::verif::c10::model_init_zero))]
#[cfg_attr(kani, kani::stub(crate::axecutor::Axecutor::mem_init_zero_named, crate::verif::c10::model_init_zero_named))]
pub(crate) fn c10_anywhere() {
    let mut ax = mk_ax_bare();
    let pre = mk_pre_lens(&mut ax, 2, [3, 2, 0]);
    let buf = sym_buf16();
    let len: usize = kani::any::<usize>();
    kani::assume(len <= 8);
    let named: bool = kani::any::<bool>();
    let name = if named { Some(String::from("n")) } else { None };
    let r = ax.mem_init_anywhere(buf[..len].to_vec(), name);
    vcheck!("C10|anywhere|succeeds", r.is_ok());
    if let Ok(start) = r {
        vcheck!("C10|anywhere|fresh_range_of_requested_length", check_fresh(&ax, &pre, start, len as u64));
        if ax.state.memory.len() == pre.n + 1 {
            let m = &ax.state.memory[pre.n];
            let mut i = 0;
            while i < 8 {
                if i < len && i < m.verif_data().len() {
                    vcheck!("C10|anywhere|holds_supplied_bytes", m.verif_data()[i] == buf[i]);
                }
                i += 1;
            }
        }
    }
    vcheck!("C10|anywhere|existing_areas_untouched", pre.old_areas_unchanged(&ax, 99));
    vcheck!("C10|anywhere|invariant_preserved", inv_m(&ax));
    vreach!("C10|anywhere|reach_retry", pre.n >= 1 && pre.s[0] == 0x1000 && r.is_ok());
    std::mem::forget(ax);
}

// @harness id=c10_init_stack props=C10 crash=C10 tier=quick unwind_label=C10|init_stack|terminates desc="init_stack(length<=16): terminates, fresh zero-filled stack area, M preserved"
#[cfg_attr(kani, kani::proof)]
#[cfg_attr(kani, kani::unwind(10))]
#[cfg_attr(kani, kani::stub(alloc::fmt::format, crate::verif::util::stub_format))]
#[cfg_attr(kani, kani::stub(crate::axecutor::Axecutor::mem_init_area_named, crate::verif::c10::model_init_area_named))]
#[cfg_attr(kani, kani::stub(crate::axecutor::Axecutor::mem_init_area, crate::verif::c10::model_init_area))]
#[cfg_attr(kani, kani::stub(crate::axecutor::Axecutor::mem_init_zero, crate::verif::c10::model_init_zero))]
#[cfg_attr(kani, kani::stub(crate::axecutor::Axecutor::mem_init_zero_named, crate::verif::c10::model_init_zero_named))]
pub(crate) fn c10_init_stack() {
    // only RSP is touched by init_stack; a one-entry register map keeps the unwind bound small
    let mut ax = mk_ax_bare();
    ax.state.registers.insert(crate::state::registers::SupportedRegister::RSP, kani::any::<u64>());
    let pre = mk_pre_lens(&mut ax, 2, [3, 2, 0]);
    let len: u64 = kani::any::<u64>();
    kani::assume(len <= 16);
    let r = ax.init_stack(len);
    vcheck!("C10|init_stack|succeeds", r.is_ok());
    if let Ok(start) = r {
        vcheck!("C10|init_stack|fresh_range_of_requested_length", check_fresh(&ax, &pre, start, len));
    }
    vcheck!("C10|init_stack|existing_areas_untouched", pre.old_areas_unchanged(&ax, 99));
    vcheck!("C10|init_stack|invariant_preserved", inv_m(&ax));
    vreach!("C10|init_stack|reach_retry", pre.n >= 1 && pre.s[0] == 0x1000 && r.is_ok());
    std::mem::forget(ax);
}
