#!/bin/bash
# Confirms seeded changes in a scratch worktree: patch applies, builds, existing suite passes,
# demonstration fails with the change and passes without it. Usage: confirm_seeded.sh <id>...
set -u
WT=/tmp/confirm_wt_$$
git -C /repo worktree add -q $WT HEAD
for id in "$@"; do
  d=/verif/seeded/$id
  demo=$(ls $d/demo_*.rs | head -1); name=$(basename $demo .rs)
  cd $WT && git checkout -q -- . && rm -rf tests && mkdir -p tests && cp $demo tests/
  if ! git apply $d/patch.diff; then echo "$id: PATCH DOES NOT APPLY"; continue; fi
  suite=$(cargo test --offline --lib 2>&1 | grep -E "^test result" | head -1)
  with=$(cargo test --offline --test $name 2>&1 | grep -E "^test result" | head -1)
  git checkout -q -- src
  without=$(cargo test --offline --test $name 2>&1 | grep -E "^test result" | head -1)
  echo "$id: suite_with_change=[$suite] demo_with_change=[$with] demo_without=[$without]"
  echo "{\"suite_with_change\": \"$suite\", \"demo_with_change\": \"$with\", \"demo_without_change\": \"$without\"}" > $d/confirmation.json
done
cd / && git -C /repo worktree remove --force $WT
