"""Instruction inventory (parsed from /repo's current source), a small assembler that turns
iced's opcode strings into witness encodings, and the native decoder bridge."""
import glob
import hashlib
import json
import os
import re
import subprocess

import driver

ARM_RE = re.compile(r"^\s+(?:iced_x86::)?(?:Code::)?(\w+) => self\.(instr_\w+)\(i\),", re.M)
FN_RE = re.compile(
    r"((?:[ \t]*///[^\n]*\n)+)[ \t]*(?:pub(?:\(crate\))? )?fn (instr_\w+)\(&mut self, i: Instruction\) -> Result<\(\), AxError> \{(.*?)\n    \}\n",
    re.S)
MNEM_RE = re.compile(r"pub\(crate\) fn (mnemonic_\w+)\(&mut self, i: Instruction\)")


def inventory(repo=None):
    """[{file, mnemonic_fn, code, handler, syntax, opcode, implemented}] from src/instructions/*.rs"""
    repo = repo or driver.REPO
    out = []
    for path in sorted(glob.glob(os.path.join(repo, "src", "instructions", "*.rs"))):
        base = os.path.basename(path)
        if base in ("mod.rs", "integration_tests.rs"):
            continue
        s = open(path, encoding="utf-8").read()
        # only the non-test part
        cut = s.find("#[cfg(test)]")
        body = s if cut < 0 else s[:cut]
        mm = MNEM_RE.search(body)
        if not mm:
            continue
        fns = {}
        for m in FN_RE.finditer(body):
            doc = [l.strip()[3:].strip() for l in m.group(1).strip().split("\n")]
            doc = [d for d in doc if d]
            fns[m.group(2)] = (doc, m.group(3))
        for code, handler in ARM_RE.findall(body):
            doc, fbody = fns.get(handler, ([], ""))
            unimpl = "opcode_unimplemented!" in fbody or not fbody.strip()
            out.append({"file": base, "mnemonic_fn": mm.group(1), "code": code, "handler": handler,
                        "syntax": doc[0] if doc else "", "opcode": doc[1] if len(doc) > 1 else "",
                        "implemented": (not unimpl) and handler in fns})
    return out


# ----------------------------------------------------------------------------------------
# assembler for iced opcode strings
# ----------------------------------------------------------------------------------------
IMM_SIZES = {"ib": 1, "iw": 2, "id": 4, "io": 8, "cb": 1, "cw": 2, "cd": 4}


class Enc:
    def __init__(self, opcode):
        self.src = opcode
        toks = opcode.split()
        self.p66 = self.p67 = self.rexw = False
        self.mand = []
        self.op = []
        self.plusr = False
        self.modrm = None  # 'r' or digit
        self.imms = []
        self.moffs = False
        self.ok = True
        i = 0
        # size / address tokens
        while i < len(toks) and toks[i] in ("o16", "o32", "o64", "a16", "a32", "a64", "NP", "NFx"):
            t = toks[i]
            if t == "o16":
                self.p66 = True
            elif t == "o64":
                self.rexw = True
            elif t == "a32":
                self.p67 = True
            elif t == "a16":
                self.ok = False
            i += 1
        rest = toks[i:]
        if len(rest) >= 2 and rest[0] in ("66", "F2", "F3") and rest[1] == "0F":
            self.mand.append(int(rest[0], 16))
            rest = rest[1:]
        for t in rest:
            if re.fullmatch(r"[0-9A-F]{2}", t):
                self.op.append(int(t, 16))
            elif re.fullmatch(r"[0-9A-F]{2}\+r[bwdo]", t):
                self.op.append(int(t[:2], 16))
                self.plusr = True
            elif t == "/r":
                self.modrm = "r"
            elif re.fullmatch(r"/[0-7]", t):
                self.modrm = int(t[1])
            elif t in IMM_SIZES:
                self.imms.append(IMM_SIZES[t])
            elif t == "mo":
                self.moffs = True
            else:
                self.ok = False

    def assemble(self, reg=1, rm=3, mem=None, imm_fill=0x11, force_rex=False, seg=None, a32=False, plus=3):
        """mem: None -> mod=11 with register rm; dict(mode=...) for memory forms:
           {'mode':'disp8','base':n,'disp':d} | {'mode':'sib','base':b,'index':x,'scale':s,'disp8':d}
           | {'mode':'rip','disp32':d} | {'mode':'abs','disp32':d}"""
        if not self.ok:
            return None
        out = []
        if seg is not None:
            out.append(seg)
        if self.p67 or a32:
            out.append(0x67)
        if self.p66:
            out.append(0x66)
        out += self.mand
        rex_r = rex_x = rex_b = 0
        tail = []
        opbytes = list(self.op)
        if self.plusr:
            opbytes[-1] = opbytes[-1] + (plus & 7)
            rex_b = 1 if plus >= 8 else 0
        if self.modrm is not None:
            regf = reg if self.modrm == "r" else self.modrm
            if self.modrm == "r" and reg >= 8:
                rex_r = 1
            if mem is None:
                tail.append(0xC0 | ((regf & 7) << 3) | (rm & 7))
                if rm >= 8:
                    rex_b = 1
            else:
                mode = mem["mode"]
                if mode == "disp8":
                    b = mem["base"]
                    if (b & 7) == 4:
                        tail.append(0x40 | ((regf & 7) << 3) | 4)
                        tail.append(0x24)
                    else:
                        tail.append(0x40 | ((regf & 7) << 3) | (b & 7))
                    if b >= 8:
                        rex_b = 1
                    tail.append(mem.get("disp", 0x10) & 0xFF)
                elif mode == "sib":
                    b, x, sc = mem["base"], mem["index"], mem["scale"]
                    tail.append(0x40 | ((regf & 7) << 3) | 4)
                    tail.append(({1: 0, 2: 1, 4: 2, 8: 3}[sc] << 6) | ((x & 7) << 3) | (b & 7))
                    if b >= 8:
                        rex_b = 1
                    if x >= 8:
                        rex_x = 1
                    tail.append(mem.get("disp8", 0x10) & 0xFF)
                elif mode == "rip":
                    tail.append(0x00 | ((regf & 7) << 3) | 5)
                    tail += list(int(mem.get("disp32", 0x100) & 0xFFFFFFFF).to_bytes(4, "little"))
                elif mode == "abs":
                    tail.append(0x00 | ((regf & 7) << 3) | 4)
                    tail.append(0x25)
                    tail += list(int(mem.get("disp32", 0x100) & 0xFFFFFFFF).to_bytes(4, "little"))
                else:
                    return None
        rex = 0x40 | (8 if self.rexw else 0) | (rex_r << 2) | (rex_x << 1) | rex_b
        if rex != 0x40 or force_rex:
            out.append(rex)
        out += opbytes
        out += tail
        if self.moffs:
            n = 4 if (self.p67 or a32) else 8
            out += [0x20 + k for k in range(n)]
        for k, sz in enumerate(self.imms):
            out += [(imm_fill + k) & 0xFF] * sz
        if len(out) > 15:
            return None
        return bytes(out)


def witnesses(form, seed=0, thorough=False):
    """Witness encodings for one form: list of (shape, bytes). Register numbers rotate with
    the seed; shapes: reg (mod=11), regalias (same register twice), reghi (AH..BH numbers, no
    REX), regx (REX registers), mem (base+disp8), memx (REX base), plus the plain encoding
    for forms without ModRM."""
    e = Enc(form["opcode"])
    if not e.ok:
        return []
    out = []
    bases = [3, 6, 7, 1, 2, 8, 9, 10, 11, 14, 15]
    regs = [1, 2, 6, 7, 0, 3]
    reg = regs[seed % len(regs)]
    rm = [3, 6, 7, 2, 1][seed % 5]
    if rm == reg:
        rm = (rm + 1) % 4
    if e.modrm is not None:
        out.append(("reg", e.assemble(reg=reg, rm=rm)))
        out.append(("mem", e.assemble(reg=reg, mem={"mode": "disp8", "base": bases[seed % len(bases)], "disp": 0x10})))
        if thorough:
            out.append(("regalias", e.assemble(reg=reg, rm=reg)))
            out.append(("reghi", e.assemble(reg=4 + (seed % 4), rm=4 + ((seed + 3) % 4))))
            out.append(("regx", e.assemble(reg=9 + (seed % 6), rm=[12, 13, 8, 15][seed % 4], force_rex=True)))
            out.append(("regrex", e.assemble(reg=4 + (seed % 4), rm=4 + ((seed + 1) % 4), force_rex=True)))
            # (a "memx" shape with a REX base register was dropped: a second memory shape per form doubles the
            # most expensive part of the thorough tier for little gain; other addressing forms are C05's subject)
    elif e.plusr:
        out.append(("reg", e.assemble(plus=rm)))
        if thorough:
            out.append(("regx", e.assemble(plus=9 + (seed % 6))))
            out.append(("reghi", e.assemble(plus=4 + (seed % 4))))
            out.append(("regrex", e.assemble(plus=4 + (seed % 4), force_rex=True)))
    else:
        out.append(("plain", e.assemble()))
    return [(s, b) for s, b in out if b is not None]


# ----------------------------------------------------------------------------------------
# native decoder bridge (cached: it depends on iced-x86 and the witness bytes only)
# ----------------------------------------------------------------------------------------
def bridge(scratch, items, ip=0x1000):
    """items: [(id, bytes)] -> {id: fields dict}. Decoding uses the real decoder natively.
    Results are cached by (Cargo.lock hash, ib.rs hash, bytes, ip)."""
    lock = open(os.path.join(driver.REPO, "Cargo.lock"), "rb").read()
    ibsrc = open(os.path.join(driver.VERIF, "harness", "ib.rs"), "rb").read()
    salt = hashlib.sha256(lock + ibsrc).hexdigest()[:16]
    cpath = os.path.join(driver.CACHE, "bridge-%s.json" % salt)
    cache = {}
    if os.path.exists(cpath):
        try:
            cache = json.load(open(cpath))
        except Exception:
            cache = {}
    res, todo = {}, []
    for iid, b in items:
        key = "%s@%x" % (b.hex(), ip)
        if key in cache:
            res[iid] = cache[key]
        else:
            todo.append((iid, b, key))
    if todo:
        binp = scratch.build_native(binname="verif_bridge")
        inp = "".join("%s %s %x\n" % (iid, b.hex(), ip) for iid, b, _k in todo)
        p = subprocess.run([binp], input=inp, capture_output=True, text=True)
        if p.returncode != 0:
            raise driver.BuildError("decoder bridge failed: " + p.stderr[-2000:])
        by_id = {}
        for line in p.stdout.split("\n"):
            line = line.strip()
            if line.startswith("{"):
                d = json.loads(line)
                by_id[d["id"]] = d
        for iid, b, key in todo:
            d = by_id.get(iid, {"id": iid, "error": "no output"})
            d = dict(d)
            d["bytes"] = b.hex()
            cache[key] = d
            res[iid] = d
        os.makedirs(driver.CACHE, exist_ok=True)
        json.dump(cache, open(cpath, "w"))
    return res
