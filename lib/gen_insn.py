"""Generator of the per-instruction-form harnesses (C01-C06, C09, C19, C20).

For every form found in /repo's current source: witness encodings -> native decoder bridge
-> `Fields` literal -> one harness per (form, shape) that runs the real `mnemonic_<m>` handler
on a fully symbolic machine and compares with the reference semantics (harness/x86ref.rs)."""
import json
import os
import re

import driver
import insn

CC = {"o": 0, "no": 1, "b": 2, "ae": 3, "e": 4, "ne": 5, "be": 6, "a": 7, "s": 8, "ns": 9, "p": 10, "np": 11,
      "l": 12, "ge": 13, "le": 14, "g": 15}
TOKW = {"AL": 8, "AX": 16, "EAX": 32, "RAX": 64}


def tokw(t):
    if t in TOKW:
        return TOKW[t]
    m = re.search(r"(\d+)$", t)
    return int(m.group(1)) if m else 0


def classify(code):
    """Code name -> dict(op, w, sw, cc, klass). klass: data | branch | stack | callret | os | other"""
    parts = code.split("_")
    mn = parts[0].lower()
    ops = parts[1:]
    w = tokw(ops[0]) if ops else 0
    d = {"op": "Other", "w": w or 64, "sw": 0, "cc": 0, "klass": "data"}
    simple = {"add": "Add", "adc": "Adc", "sub": "Sub", "cmp": "Cmp", "and": "And", "xor": "Xor", "test": "Test",
              "inc": "Inc", "dec": "Dec", "neg": "Neg", "not": "Not", "shl": "Shl", "shr": "Shr", "mul": "Mul",
              "div": "Div", "idiv": "Idiv", "mov": "Mov", "lea": "Lea"}
    if mn in simple:
        d["op"] = simple[mn]
        if mn == "mov" and any(t in ("Sreg", "cr", "dr", "tr") or t.startswith("Sreg") for t in ops):
            d["op"] = "Other"
    elif mn == "imul":
        d["op"] = {1: "Imul1", 2: "Imul2", 3: "Imul3"}[len(ops)]
    elif mn == "movzx":
        d["op"], d["sw"] = "Movzx", tokw(ops[1])
    elif mn == "movsxd":
        d["op"], d["sw"] = "Movsxd", tokw(ops[1])
    elif mn.startswith("cmov") and mn[4:] in CC:
        d["op"], d["cc"] = "Cmov", CC[mn[4:]]
    elif mn.startswith("set") and mn[3:] in CC:
        d["op"], d["cc"], d["w"] = "Set", CC[mn[3:]], 8
    elif mn in ("cdq", "cdqe", "cqo", "cwd", "cld", "cpuid"):
        d["op"] = mn.capitalize()
    elif mn in ("nopw", "nopd", "nopq", "nop", "endbr64"):
        d["op"] = "Nop"
    elif mn == "movd":
        d["op"] = "MovdToXmm" if ops[0] == "xmm" else ("MovdFromXmm" if ops[-1] == "xmm" else "Other")
        d["w"] = 32
    elif mn == "movups":
        d["op"], d["w"] = "Movups", 128
    elif mn == "xorps":
        d["op"], d["w"] = "Xorps", 128
    elif mn in ("push", "pushq", "pushw", "pushd"):
        d["op"], d["klass"] = "Push", "stack"
        d["w"] = 64 if mn == "pushq" else (16 if mn == "pushw" else (tokw(ops[0]) if ops[0][0] in "ri" else 64))
        if ops and ops[0].startswith("imm") and mn == "push":
            d["w"] = tokw(ops[0])
        if d["w"] == 32:
            d["op"] = "Other"  # not encodable in 64-bit mode
    elif mn in ("pop",):
        d["op"], d["klass"] = "Pop", "stack"
        if d["w"] == 32:
            d["op"] = "Other"
    elif mn == "call":
        d["klass"] = "callret"
        d["op"] = "CallRel" if code == "Call_rel32_64" else ("CallRm" if code == "Call_rm64" else "Other")
        d["w"] = 64
    elif mn in ("retnq",):
        d["op"], d["klass"], d["w"] = ("Ret" if code == "Retnq" else "Other"), "callret", 64
    elif mn.startswith("ret"):
        d["klass"] = "callret"
    elif mn == "jmp":
        d["klass"] = "branch"
        d["op"] = "JmpRel" if code in ("Jmp_rel8_64", "Jmp_rel32_64") else ("JmpRm" if code == "Jmp_rm64" else "Other")
        d["w"] = 64
    elif mn == "jrcxz":
        d["op"], d["klass"] = ("Jrcxz" if code.endswith("_64") else "Other"), "branch"
    elif mn == "jecxz":
        d["op"], d["klass"] = ("Jecxz" if code.endswith("_64") else "Other"), "branch"
    elif mn[0] == "j" and mn[1:] in CC:
        d["op"], d["cc"], d["klass"] = ("Jcc" if code.endswith("_64") else "Other"), CC[mn[1:]], "branch"
    elif mn in ("syscall", "int", "int1", "int3"):
        d["klass"] = "os"
    if d["op"] == "Other" and d["klass"] == "data":
        d["klass"] = "other"
    return d


GROUP_MAX = 4
# quick tier must finish within 900 s from a cold cache on 16 cores: one memory-operand pattern per
# mnemonic file (None = no memory shape in quick), accumulator-immediate forms of two ALU mnemonics only
QUICK_MEM_PATTERN = {"add": "rm_r", "adc": "r_rm", "sub": "rm_r", "and": "r_rm", "xor": "rm_r", "cmp": "r_rm", "test": "rm_r",
                     "mov": "rm_r", "shl": "rm_CL", "shr": "rm_imm", "cmovae": None, "cmovne": None, "setb": None, "setne": None,
                     "nop": None, "dec": None, "not": None}
QUICK_PLAIN_SKIP = {"adc", "and", "xor", "cmp", "test"}
THOROUGH = [False]
IMM_KINDS = {"Immediate8", "Immediate8_2nd", "Immediate16", "Immediate32", "Immediate64", "Immediate8to16",
             "Immediate8to32", "Immediate8to64", "Immediate32to64"}

STUBS = """#[cfg_attr(kani, kani::proof)]
#[cfg_attr(kani, kani::unwind(90))]
#[cfg_attr(kani, kani::stub(alloc::fmt::format, crate::verif::util::stub_format))]
#[cfg_attr(kani, kani::stub(crate::axecutor::Axecutor::collect_mem_error_hints, crate::verif::util::stub_mem_hints))]
#[cfg_attr(kani, kani::stub(<iced_x86::Instruction as std::fmt::Display>::fmt, crate::verif::util::stub_instr_fmt))]
#[cfg_attr(kani, kani::stub(<iced_x86::Code as std::fmt::Debug>::fmt, crate::verif::util::stub_code_fmt))]
#[cfg_attr(kani, kani::stub(<iced_x86::Mnemonic as std::fmt::Debug>::fmt, crate::verif::util::stub_mnemonic_fmt))]
#[cfg_attr(kani, kani::stub(<iced_x86::Register as std::fmt::Debug>::fmt, crate::verif::util::stub_register_fmt))]
#[cfg_attr(kani, kani::stub(<iced_x86::OpKind as std::fmt::Debug>::fmt, crate::verif::util::stub_opkind_fmt))]
"""

HEADER = """//! GENERATED by /verif/lib/gen_insn.py from /repo's current source — do not edit.
#![allow(non_snake_case)]
#[cfg(not(kani))]
use crate::verif::shim as kani;
use crate::verif::ib::{rebuild, Fields};
use crate::verif::insn_rt::*;
use crate::verif::x86ref::*;
use iced_x86::{Code, OpKind, Register};

"""


def fields_literal(d):
    return ("Fields { code: Code::%s, len: %d, k: [%s], r: [%s], base: Register::%s, index: Register::%s, scale: %d, "
            "displ: %d, displ_size: %d, seg: Register::%s, imm: %d, imm2: %d, branch: %d, ip: 0 }" % (
                d["code"], d["len"], ", ".join("OpKind::" + k for k in d["k"]), ", ".join("Register::" + r for r in d["r"]),
                d["base"], d["index"], d["scale"], d["displ"], d["displ_size"], d["seg"], d["imm"], d["imm2"], d["branch"]))


def symbolic_parts(form, d, enc):
    """Rust statements that replace the byte-derived fields by symbolic values."""
    lines = []
    kinds = d["k"][:d["op_count"]]
    has_imm_bytes = any(sz for sz in enc.imms)
    is_branch = any(k.startswith("NearBranch") for k in kinds)
    if has_imm_bytes and not is_branch:
        for k in kinds:
            if k == "Immediate8":
                lines.append("f.imm = kani::any::<u8>() as u64;")
            elif k == "Immediate8_2nd":
                lines.append("f.imm2 = kani::any::<u8>();")
            elif k == "Immediate16":
                lines.append("f.imm = kani::any::<u16>() as u64;")
            elif k == "Immediate32":
                lines.append("f.imm = kani::any::<u32>() as u64;")
            elif k == "Immediate64":
                lines.append("f.imm = kani::any::<u64>();")
            elif k == "Immediate8to16":
                lines.append("f.imm = kani::any::<i8>() as i16 as u16 as u64;")
            elif k == "Immediate8to32":
                lines.append("f.imm = kani::any::<i8>() as i32 as u32 as u64;")
            elif k == "Immediate8to64":
                lines.append("f.imm = kani::any::<i8>() as i64 as u64;")
            elif k == "Immediate32to64":
                lines.append("f.imm = kani::any::<i32>() as i64 as u64;")
    if "Memory" in kinds:
        if d["base"] in ("RIP", "EIP"):
            lines.append("f.displ = f.ip.wrapping_add(f.len as u64).wrapping_add(kani::any::<i32>() as i64 as u64);")
            if d["base"] == "EIP":
                lines.append("f.displ &= 0xffff_ffff;")
        elif d["displ_size"] == 1:
            lines.append("f.displ = kani::any::<i8>() as i64 as u64;")
        elif d["displ_size"] == 4:
            lines.append("f.displ = kani::any::<i32>() as i64 as u64;")
        elif d["displ_size"] == 8:
            lines.append("f.displ = kani::any::<u64>();")
    if is_branch:
        rel = enc.imms[0] if enc.imms else 1
        ty = {1: "i8", 2: "i16", 4: "i32"}.get(rel, "i8")
        lines.append("f.branch = f.ip.wrapping_add(f.len as u64).wrapping_add(kani::any::<%s>() as i64 as u64);" % ty)
    return lines


def labels_for(klass, tag, opname):
    """[(property, field label, bitmask expr)]"""
    L = []
    L.append(("C06", "no_error_when_cpu_completes", "D_SPURIOUS_ERR"))
    L.append(("C06", "error_when_cpu_faults", "D_FAULT_MISSED"))
    L.append(("C09", "refused_access_leaves_memory_unchanged", "D_MEM_ON_FAULT"))
    if klass == "data":
        L += [("C01", "general_purpose_registers", "D_GPR | D_RSP"), ("C01", "vector_registers", "D_XMM"),
              ("C01", "memory_bytes", "D_MEM"), ("C01", "rip_is_next_instruction", "D_RIP"),
              ("C01", "segment_bases_untouched", "D_SEG"),
              ("C02", "defined_flags_equal_cpu", "D_FLAGS_DEF"), ("C02", "unaffected_flags_kept", "D_FLAGS_KEEP")]
    elif klass == "branch":
        L += [("C03", "rip_after_transfer", "D_RIP"),
              ("C03", "nothing_else_changes", "D_GPR | D_RSP | D_XMM | D_MEM | D_SEG | D_FLAGS_DEF | D_FLAGS_KEEP")]
    elif klass == "stack":
        L += [("C04", "stack_pointer", "D_RSP"), ("C04", "stack_memory", "D_MEM"),
              ("C04", "destination_and_other_registers", "D_GPR | D_XMM | D_SEG | D_RIP"),
              ("C02", "unaffected_flags_kept", "D_FLAGS_DEF | D_FLAGS_KEEP")]
    elif klass == "callret":
        L += [("C03", "rip_after_transfer", "D_RIP"), ("C04", "stack_pointer", "D_RSP"), ("C04", "stack_memory", "D_MEM"),
              ("C04", "other_registers_untouched", "D_GPR | D_XMM | D_SEG"),
              ("C02", "unaffected_flags_kept", "D_FLAGS_DEF | D_FLAGS_KEEP")]
    return L


KDIV_WIDTHS = (16, 32, 64)


def sanitize(s):
    return re.sub(r"[^A-Za-z0-9_]", "_", s)


def generate(sc, tier, seed):
    """Returns ({filename: text}, meta) — meta lists forms, witnesses and skipped items."""
    thorough = tier == "thorough"
    THOROUGH[0] = thorough
    inv = insn.inventory()
    items, wl = [], {}
    for form in inv:
        ws = insn.witnesses(form, seed, thorough=True)  # bridge everything (cached); select below
        wl[form["code"]] = ws
        for shape, b in ws:
            items.append(("%s:%s" % (form["code"], shape), b))
    br = insn.bridge(sc, items)
    files = {}
    meta = {"forms": len(inv), "implemented": sum(1 for f in inv if f["implemented"]), "harnesses": 0,
            "not_decodable_in_64bit_mode": [], "bridge_mismatch": [], "witnesses": {}}
    by_file = {}
    unimpl_by_mn = {}
    quick_shapes = {"reg", "mem", "plain"}
    groups = {}  # (file, pattern, shape, tier) -> [(block, desc)]
    pattern_widths = {}
    for form in inv:
        if form["implemented"]:
            pat = "_".join(re.sub(r"\d+$", "", t) if not t.isdigit() else t for t in form["code"].split("_")[1:])
            pattern_widths.setdefault((form["file"], pat), set()).add(classify(form["code"])["w"])
    for form in inv:
        cls = classify(form["code"])
        enc = insn.Enc(form["opcode"])
        good = []
        seen_sig = set()
        for shape, b in wl[form["code"]]:
            d = br["%s:%s" % (form["code"], shape)]
            if d.get("code") != form["code"] or not d.get("consumed_all"):
                continue
            if not d.get("rebuild_equal") or not d.get("unused_ops_default"):
                meta["bridge_mismatch"].append("%s:%s %s" % (form["code"], shape, d.get("bytes")))
                continue
            sig = (tuple(d["k"]), tuple(d["r"]), d["base"], d["index"], d["seg"])
            if sig in seen_sig:
                continue
            seen_sig.add(sig)
            good.append((shape, d))
        if not good:
            meta["not_decodable_in_64bit_mode"].append(form["code"])
            continue
        meta["witnesses"][form["code"]] = {s: d["bytes"] for s, d in good}
        want_mn = form["mnemonic_fn"][len("mnemonic_"):]
        good = [(s_, d_) for s_, d_ in good if d_.get("mnemonic", "").lower() == want_mn]
        if not good:
            # decodes to a different mnemonic (e.g. RETF): the dispatcher never routes it to this handler
            meta.setdefault("other_mnemonic", []).append(form["code"])
            continue
        if not form["implemented"]:
            unimpl_by_mn.setdefault(form["mnemonic_fn"], []).append((form, good))
            continue
        # operand pattern without widths: Add_rm8_r8 -> rm_r ; Shl_rm8_CL -> rm_CL
        pattern = "_".join(re.sub(r"\d+$", "", t) if not t.isdigit() else t for t in form["code"].split("_")[1:])
        base_pattern = pattern
        if cls["op"] in ("Div", "Idiv", "Mul", "Imul1", "Imul2", "Imul3"):
            pattern += "_w%d" % cls["w"]  # multiplier/divider circuits: one width per harness
        for shape, d in good:
            htier = "quick" if shape in quick_shapes else "thorough"
            # quick tier: for the data class the 8- and 64-bit widths in the register shape and the
            # widest width in the memory shape; every control-transfer and stack form
            if htier == "quick" and cls["klass"] == "data":
                ws = pattern_widths.get((form["file"], base_pattern), {cls["w"]})
                fkey = form["file"][:-3]
                if shape == "mem":
                    if cls["w"] != max(ws):
                        htier = "thorough"
                    elif fkey in QUICK_MEM_PATTERN and base_pattern != QUICK_MEM_PATTERN[fkey]:
                        htier = "thorough"  # one memory-operand pattern per mnemonic in the quick tier (900 s budget)
                elif cls["w"] not in (8, 64) and (8 in ws or 64 in ws):
                    htier = "thorough"
                elif shape == "plain" and fkey in QUICK_PLAIN_SKIP:
                    htier = "thorough"
                elif shape == "plain" and fkey == "mov" and cls["w"] != 64:
                    htier = "thorough"
            if not thorough and htier != "quick":
                continue
            if thorough and shape == "mem" and cls["klass"] == "data":
                ws = pattern_widths.get((form["file"], base_pattern), {cls["w"]})
                if cls["w"] not in (8, 64, max(ws)):
                    meta.setdefault("mem_widths_not_generated", []).append("%s:%s" % (form["code"], shape))
                    continue  # thorough memory shape: 8-bit, 64-bit and widest width of every pattern
            # one group per (mnemonic file, shape); multiplier/divider circuits one width per harness
            gpat = pattern if cls["op"] in ("Div", "Idiv", "Mul", "Imul1", "Imul2", "Imul3") else "all"
            gkey = (form["file"][:-3], gpat, shape, htier)
            heavy64 = cls["op"] in ("Div", "Idiv", "Mul", "Imul1", "Imul2", "Imul3") and cls["w"] == 64
            if heavy64 and shape not in ("reg", "regalias", "regx", "reghi", "regrex"):
                # 64-bit multiplier/divider circuit together with a symbolic memory operand does not finish
                # (>25 min); the memory shape of these forms is covered at 32 bits, the circuit in the register shape
                meta.setdefault("skipped_heavy", []).append("%s:%s" % (form["code"], shape))
                if cls["op"] in ("Div", "Idiv"):
                    pass  # the fault-only harness below still runs for the memory shape
                else:
                    continue
            if cls["op"] in ("Div", "Idiv") and cls["w"] >= 16:
                # Measured: only the 8-bit forms (16-bit divider circuit) are decided in full (1.5-5 min each).
                # The 16/32/64-bit value harnesses and the 32-bit fault harness (the implementation itself divides
                # at twice the operand width to test the quotient) ran into the 25 min cap in every run. The
                # 64-bit forms test the quotient range without a divider (high half / sign tests), so their
                # fault condition is decided on its own; everything else of these widths is outside the claim.
                if cls["w"] == 64:
                    c2 = dict(cls)
                    c2["op"] = cls["op"] + "Fault"
                    blk = form_block(form, c2, enc, shape, d, suffix="_fault", only_props=("C06", "C09"))
                    groups.setdefault(gkey[:3] + (htier, "fault"), []).append((blk, "%s [%s] %s fault-only" % (form["syntax"], form["opcode"], shape)))
                meta.setdefault("skipped_heavy", []).append("%s:%s value%s" % (form["code"], shape, "" if cls["w"] == 64 else " and fault condition"))
                if thorough and shape == "reg" and cls["w"] in KDIV_WIDTHS:
                    blk = form_block(form, cls, enc, shape, d, suffix="_kdiv", kdiv=True)
                    groups.setdefault(gkey[:3] + ("thorough", "kdiv"), []).append((blk, "%s [%s] %s divisor in 10 boundary constants" % (form["syntax"], form["opcode"], shape)))
                continue
            blk = form_block(form, cls, enc, shape, d)
            groups.setdefault(gkey, []).append((blk, "%s [%s] %s" % (form["syntax"], form["opcode"], shape)))
    for gkey, lst in sorted(groups.items()):
        hid = "gi_" + sanitize("_".join(str(x) for x in gkey if x not in ("quick", "thorough")))
        if gkey[3] == "thorough" and any(k[:3] == gkey[:3] and k[3] == "quick" and k[4:] == gkey[4:] for k in groups):
            hid += "_rest"
        gmax = GROUP_MAX
        if any(b[2] for b, _d in lst):
            gmax = 1  # blocks with a memory operand: merged blocks exhaust 12 GB (and 15 of them the machine)
        if "_w64" in gkey[1] or gkey[0] in ("pop", "push", "call", "ret"):
            gmax = 1  # stack forms: two merged blocks exhaust 12 GB
        if sum(1 for b, _d in lst if "C18" in b[1].split(",")) > 1:
            gmax = 1  # more than one block with a symbolic trace / call-stack pre-state: 10 GB each, the machine runs out
        for i in range(0, len(lst), gmax):
            part = lst[i:i + gmax]
            h = hid if len(lst) <= gmax else "%s_%d" % (hid, i // gmax)
            txt = group_harness(h, gkey[3], gkey[0], [b for b, _d in part], [d for _b, d in part])
            by_file.setdefault("gi_" + gkey[0] + ".rs", []).append(txt)
            meta["harnesses"] += 1
    # C20: per mnemonic file one register-shape and one memory-shape form (widest width)
    det_quick = {"add", "adc", "mul", "idiv", "shl", "mov", "movzx", "cmove", "push", "pop", "call", "ret", "jne", "lea",
                 "xorps", "cpuid", "setb"}
    det_done = set()
    for form in sorted(inv, key=lambda f: -classify(f["code"])["w"]):
        if not form["implemented"] or form["code"] not in meta["witnesses"]:
            continue
        cls = classify(form["code"])
        if cls["op"] == "Other":
            continue
        enc = insn.Enc(form["opcode"])
        fkey = form["file"][:-3]
        for shape in ("reg", "mem", "plain"):
            if (fkey, shape) in det_done:
                continue
            d = br.get("%s:%s" % (form["code"], shape))
            if not d or d.get("code") != form["code"] or not d.get("rebuild_equal"):
                continue
            htier = "quick" if fkey in det_quick and shape in ("reg", "plain") else "thorough"
            det_done.add((fkey, shape))
            if not thorough and htier != "quick":
                continue
            by_file.setdefault("gd_determinism.rs", []).append(determinism_harness(form, cls, enc, shape, d, htier))
            meta["harnesses"] += 1
    # unimplemented forms: grouped, only "returns an error, never crashes"
    for mn, lst in sorted(unimpl_by_mn.items()):
        chunk, n = [], 0
        flat = []
        for form, good in lst:
            for shape, d in good:
                if thorough or shape in quick_shapes:
                    flat.append((form, shape, d))
        for i in range(0, len(flat), 10):
            part = flat[i:i + 10]
            txt = unimpl_harness(mn, i // 10, part)
            by_file.setdefault("gi_" + part[0][0]["file"][:-3] + ".rs", []).append(txt)
            meta["harnesses"] += 1
    progs = program_harnesses(sc, inv, meta)
    if progs:
        by_file.setdefault("gp_programs.rs", []).extend(progs)
        meta["harnesses"] += len(progs)
    for fn, parts in by_file.items():
        files[fn] = HEADER + "\n".join(parts)
    return files, meta


# ----------------------------------------------------------------------------------------
# short programs (C04): several handlers in sequence vs the reference executed in sequence
# ----------------------------------------------------------------------------------------
PROGRAMS = [
    ("mov_store_then_pop", ["48890424", "5b"], "mov [rsp],rax ; pop rbx  =>  rbx == rax (a value stored at [rsp] is what POP returns)",
     "post.r[RBX_I] == pre.r[RAX_I]"),
    ("push_then_load", ["50", "488b1c24"], "push rax ; mov rbx,[rsp]  =>  rbx == rax (PUSH stores at the new top of stack)",
     "post.r[RBX_I] == pre.r[RAX_I]"),
    ("store_call_ret", ["48890424", "e800000000", "c3"],
     "mov [rsp],rax ; call next ; next: ret  =>  back after the call, RSP restored, [rsp] still rax (live slots survive calls)",
     "post.r[RSP_I] == pre.r[RSP_I]"),
    # ("push_push_pop_pop", four instructions) exhausts 12 GB in the solver and is not generated
    # round trips: independent of WHERE the slot is, the value must come back (catches value defects of
    # PUSH/POP that the known slot-convention finding would otherwise mask)
    ("push_imm32_pop", ["6811223344", "58"], "push imm32 ; pop rax  =>  rax == sign-extended immediate (any imm32), RSP restored",
     "post.r[RAX_I] == imm_0 && post.r[RSP_I] == pre.r[RSP_I]"),
    ("push_imm8_pop", ["6a11", "58"], "push imm8 ; pop rax  =>  rax == sign-extended immediate (any imm8), RSP restored",
     "post.r[RAX_I] == imm_0 && post.r[RSP_I] == pre.r[RSP_I]"),
    ("push_r64_pop_r64", ["51", "5a"], "push rcx ; pop rdx  =>  rdx == rcx, RSP restored",
     "post.r[RDX_I] == pre.r[RCX_I] && post.r[RSP_I] == pre.r[RSP_I]"),
    ("push_r16_pop_r16", ["6651", "665a"], "push cx ; pop dx  =>  dx == cx, upper 48 bits of rdx kept, RSP restored",
     "post.r[RDX_I] == ((pre.r[RDX_I] & !0xffff) | (pre.r[RCX_I] & 0xffff)) && post.r[RSP_I] == pre.r[RSP_I]"),
]


def program_harnesses(sc, inv, meta):
    by_code = {f["code"]: f for f in inv}
    items = []
    for name, insns, _d, _p in PROGRAMS:
        off = 0
        for n, hx in enumerate(insns):
            items.append(("prog:%s:%d" % (name, n), bytes.fromhex(hx), 0x1000 + off))
            off += len(hx) // 2
    res = {}
    for iid, b, ip in items:
        res.update(insn.bridge(sc, [(iid, b)], ip=ip))
    out = []
    for name, insns, desc, direct in PROGRAMS:
        hid = "gp_%s" % name
        L = []
        L.append('// @harness id=%s props=C04 crash=C04,C19 tier=quick group=program timeout=1500 desc="%s"' % (hid, desc))
        L.append(STUBS.rstrip("\n"))
        L.append("pub(crate) fn %s() {" % hid)
        L.append("    let ip0: u64 = kani::any::<u64>();")
        L.append("    let mut f0 = crate::verif::ib::NO_FIELDS;")
        L.append("    f0.ip = ip0;")
        L.append("    f0.len = 0;")
        L.append("    let (mut ax, pre) = mk_machine(&f0, true, false, 0);")
        L.append("    let mut m = pre; // reference machine")
        L.append("    let mut emu_ok = true;")
        off = 0
        ok = True
        for n, hx in enumerate(insns):
            d = res["prog:%s:%d" % (name, n)]
            if "code" not in d or not d.get("rebuild_equal") or d["code"] not in by_code or not by_code[d["code"]]["implemented"]:
                ok = False
                break
            form = by_code[d["code"]]
            cls = classify(d["code"])
            rel = None
            if any(k.startswith("NearBranch") for k in d["k"][:d["op_count"]]):
                rel = (d["branch"] - (d["ip"] + d["len"])) & 0xFFFFFFFFFFFFFFFF
            L.append("    // %s: %s" % (hx, form["syntax"]))
            L.append("    let mut f = %s;" % fields_literal(d))
            L.append("    f.ip = ip0.wrapping_add(%d);" % off)
            if rel is None:
                # immediates are symbolic, as in the single-instruction harnesses
                for l in symbolic_parts(form, d, insn.Enc(form["opcode"])):
                    if l.startswith("f.imm"):
                        L.append("    " + l)
            L.append("    let imm_%d = f.imm;" % n)
            if rel is not None:
                L.append("    f.branch = f.ip.wrapping_add(f.len as u64).wrapping_add(%du64);" % rel)
            L.append("    let next = f.ip.wrapping_add(f.len as u64);")
            L.append("    // fetch: both machines must be at this instruction")
            L.append("    emu_ok &= %s;" % ("true" if n == 0 else "ax.reg_read_64(crate::state::registers::SupportedRegister::RIP).ok() == Some(f.ip)"))
            L.append("    kani::assume(%s);" % ("true" if n == 0 else "m.r[RIP_I] == f.ip"))
            L.append("    m.r[RIP_I] = next;")
            L.append("    ax.state.registers.insert(crate::state::registers::SupportedRegister::RIP, next);")
            L.append("    let out = exec(&f, Op::%s, %d, %d, %d, &m);" % (cls["op"], cls["w"], cls["sw"], cls["cc"]))
            L.append("    kani::assume(!out.fault && !out.skip); // the property is about runs the CPU completes")
            if cls["op"] == "Ret":
                L.append("    kani::assume(m.r[RSP_I].wrapping_add(8) != ax.stack_top && m.r[RSP_I] != ax.stack_top);")
            L.append("    if emu_ok {")
            L.append("        emu_ok &= ax.%s(rebuild(&f)).is_ok();" % form["mnemonic_fn"])
            L.append("    }")
            L.append("    m = out.m;")
            off += len(hx) // 2
        if not ok:
            meta.setdefault("programs_skipped", []).append(name)
            continue
        L.append("    let post = capture(&ax, &pre);")
        L.append('    vcheck!("C04|prog_%s|every_instruction_completes", emu_ok);' % name)
        L.append("    if emu_ok {")
        L.append('        vcheck!("C04|prog_%s|guest_visible_outcome", %s);' % (name, direct))
        L.append("        let fin = Out { fault: false, m, def: 0, undef: 0, any_regs: 0, skip: false, fault_only: false, taken: false };")
        L.append("        let bad = diff(&fin, &pre, false, &post);")
        L.append('        vcheck!("C04|prog_%s|final_registers_equal_cpu", bad & (D_GPR | D_RSP | D_RIP) == 0);' % name)
        L.append('        vcheck!("C04|prog_%s|final_stack_memory_equals_cpu", bad & D_MEM == 0);' % name)
        L.append("    }")
        L.append('    vreach!("C04|prog_%s|reach_end", emu_ok);' % name)
        L.append("    std::mem::forget(ax);")
        L.append("}\n")
        out.append("\n".join(L))
    return out


def form_block(form, cls, enc, shape, d, suffix="", only_props=None, kdiv=False):
    """Code of one form inside a (possibly grouped) harness: runs the handler on the shared
    symbolic machine and compares with the reference. Returns (lines, props, has_mem, nxmm)."""
    code = form["code"]
    tag = "%s:%s%s" % (code, shape, suffix)
    kinds = d["k"][:d["op_count"]]
    has_mem = "Memory" in kinds or cls["klass"] in ("stack", "callret")
    klass = cls["klass"]
    props = {"data": "C01,C02,C06,C09,C19", "branch": "C03,C06,C09,C19", "stack": "C04,C02,C06,C09,C19",
             "callret": "C03,C04,C02,C06,C09,C19", "os": "C19", "other": "C19"}[klass]
    if "Memory" in kinds and klass in ("data",):
        props += ",C08"
    if only_props:
        props = ",".join(only_props) + ",C19"
    nxmm = 2 if any(r.startswith("XMM") for r in d["r"]) else 0
    lines = []
    lines.append("// %s [%s] %s bytes=%s" % (form["syntax"], form["opcode"], shape, d["bytes"]))
    lines.append("let mut f = %s;" % fields_literal(d))
    lines.append("f.ip = ip;")
    for l in symbolic_parts(form, d, enc):
        lines.append(l)
    lines.append("let next = f.ip.wrapping_add(f.len as u64);")
    lines.append("ax.state.registers.insert(crate::state::registers::SupportedRegister::RIP, next);")
    lines.append("let mut pre = pre0;")
    lines.append("pre.r[RIP_I] = next;")
    if kdiv:
        # Bounded variant for the wide dividers: the divisor register holds one of a few boundary constants
        # (chosen by a symbolic selector), the dividend and everything else stays arbitrary.
        w = cls["w"]
        m = (1 << w) - 1
        consts = [0, 1, 2, 3, 10, m, m - 1, 1 << (w - 1), (1 << (w - 1)) - 1, 0x10]
        lines.append("let dsel: u8 = kani::any::<u8>();")
        lines.append("let dconst: u64 = match dsel { %s };" % " ".join(
            "%s => 0x%x," % (("_" if n == len(consts) - 1 else str(n)), c) for n, c in enumerate(consts)))
        lines.append("let (gi, _gw, ghi) = gpr(f.r[0]).unwrap();")
        lines.append("kani::assume(((pre.r[gi] >> (if ghi { 8 } else { 0 })) & 0x%x) == dconst);" % m)
    if cls["op"] == "Ret":
        lines.append("// the emulator's top-level-return rule (C11) is not under test here")
        lines.append("kani::assume(pre.r[RSP_I].wrapping_add(8) != ax.stack_top && pre.r[RSP_I] != ax.stack_top);")
    # C18 content obligations: one representative form per transfer kind in the quick tier (a trace
    # pre-state makes a branch harness 4-6x slower for the solver); every form in the thorough tier
    TRACE_REPR = ("Jne_rel8_64", "Call_rel32_64", "Retnq", "Jmp_rm64")
    traced = klass in ("branch", "callret") and cls["op"] != "Other" and (form["code"] in TRACE_REPR or THOROUGH[0])
    if traced:
        props += ",C18"
        lines.append("let tp = mk_trace_state(&mut ax, %s);" % ("true" if form["code"] in TRACE_REPR else "false"))
    lines.append("let r = ax.%s(rebuild(&f));" % form["mnemonic_fn"])
    lines.append("let post = capture(&ax, &pre);")
    if klass in ("os", "other") or cls["op"] == "Other":
        lines.append('vcheck!("C19|%s|returns_ok_or_error", r.is_ok() || r.is_err());' % tag)
        lines.append('vreach!("C19|%s|reach");' % tag)
    else:
        lines.append("let out = exec(&f, Op::%s, %d, %d, %d, &pre);" % (cls["op"], cls["w"], cls["sw"], cls["cc"]))
        lines.append("let bad = diff(&out, &pre, r.is_err(), &post);")
        for prop, field, maskexpr in labels_for(klass, tag, cls["op"]):
            if prop == "C09" and not has_mem:
                continue
            if only_props and prop not in only_props:
                continue
            lines.append('vcheck!("%s|%s|%s", bad & (%s) == 0);' % (prop, tag, field, maskexpr))
        if traced:
            tk = {"CallRel": "1", "CallRm": "1", "Ret": "2"}.get(cls["op"], "0")
            lines.append("if !out.fault && !out.skip && r.is_ok() {")
            lines.append("    let tbad = trace_diff(&ax, &tp, %s, out.taken, f.ip, out.m.r[RIP_I]);" % tk)
            lines.append('    vcheck!("C18|%s|trace_records_exactly_the_taken_transfer", tbad & TR_TRACE == 0);' % tag)
            lines.append('    vcheck!("C18|%s|call_stack_follows_calls_and_returns", tbad & TR_STACK == 0);' % tag)
            lines.append("}")
        lines.append('vcheck!("C19|%s|reference_models_this_form", !out.skip);' % tag)
        first = props.split(",")[0]
        lines.append('vreach!("%s|%s|reach_completes", !out.fault && !out.skip);' % (first, tag))
        if has_mem and cls["op"] not in ("Lea", "Nop"):
            lines.append('vreach!("C06|%s|reach_fault", out.fault);' % tag)
    return lines, props, has_mem, nxmm


def group_harness(hid, htier, group, blocks, descs):
    """One harness: a shared symbolic machine and one guarded block per form, selected by a
    symbolic selector (so every block is decided for all inputs; the fixed per-harness cost of
    table construction and goto-instrument is paid once)."""
    props, has_mem, nxmm = set(), False, 0
    for _l, p, m, x in blocks:
        props.update(p.split(","))
        has_mem |= m
        nxmm = max(nxmm, x)
    order = ["C01", "C02", "C03", "C04", "C06", "C08", "C09", "C18", "C19"]
    props = [p for p in order if p in props]
    L = []
    L.append('// @harness id=%s props=%s crash=C06,C19 tier=%s group=%s timeout=1500 desc="%s"' % (
        hid, ",".join(props), htier, group, "; ".join(descs)[:900]))
    L.append(STUBS.rstrip("\n"))
    L.append("pub(crate) fn %s() {" % hid)
    L.append("    let ip: u64 = kani::any::<u64>();")
    L.append("    kani::assume(ip < u64::MAX - 32); // code within 32 bytes of the end of the address space is outside the claim")
    L.append("    let mut f0 = crate::verif::ib::NO_FIELDS;")
    L.append("    f0.ip = ip;")
    L.append("    f0.len = 0;")
    L.append("    let (mut ax, pre0) = mk_machine(&f0, %s, %s, %d);" % ("true" if has_mem else "false", "true" if has_mem else "false", nxmm))
    if len(blocks) > 1:
        L.append("    let sel: u8 = kani::any::<u8>();")
        L.append("    kani::assume(sel < %d);" % len(blocks))
    for n, (lines, _p, _m, _x) in enumerate(blocks):
        L.append("    %s{" % (("if sel == %d " % n) if len(blocks) > 1 else ""))
        for l in lines:
            L.append("        " + l)
        L.append("    }")
    L.append("    std::mem::forget(ax);")
    L.append("}\n")
    return "\n".join(L)


def determinism_harness(form, cls, enc, shape, d, htier):
    """C20: two machines that agree on every explicit input and differ in unwritten registers."""
    code = form["code"]
    tag = "%s:%s" % (code, shape)
    hid = "gd_%s_%s" % (sanitize(code), shape)
    kinds = d["k"][:d["op_count"]]
    has_mem = "Memory" in kinds or cls["klass"] in ("stack", "callret")
    nxmm = 2 if any(r.startswith("XMM") for r in d["r"]) else 0
    L = []
    L.append('// @harness id=%s props=C20 crash=C19 tier=%s group=determinism timeout=1500 desc="two runs of %s [%s] %s from machines equal on all explicit inputs, arbitrary elsewhere"' % (
        hid, htier, form["syntax"], form["opcode"], shape))
    L.append(STUBS.rstrip("\n"))
    L.append("pub(crate) fn %s() {" % hid)
    L.append("    let mut f = %s;" % fields_literal(d))
    L.append("    f.ip = kani::any::<u64>();")
    for l in symbolic_parts(form, d, enc):
        L.append("    " + l)
    L.append("    let (mut a, pre_a) = mk_machine(&f, %s, false, %d);" % ("true" if has_mem else "false", nxmm))
    L.append("    let (mut b, pre_b, written) = mk_twin(&f, Op::%s, &pre_a, a.stack_top);" % cls["op"])
    L.append("    let ra = a.%s(rebuild(&f));" % form["mnemonic_fn"])
    L.append("    let rb = b.%s(rebuild(&f));" % form["mnemonic_fn"])
    L.append("    let pa = capture(&a, &pre_a);")
    L.append("    let pb = capture(&b, &pre_b);")
    L.append("    let bad = twin_diff(&ra, &rb, &a, &b, &pa, &pb, written);")
    L.append('    vcheck!("C20|%s|same_outcome", bad & T_OUTCOME == 0);' % tag)
    L.append('    vcheck!("C20|%s|written_registers_agree", bad & T_REGS == 0);' % tag)
    L.append('    vcheck!("C20|%s|flags_and_segments_agree", bad & T_FLAGS == 0);' % tag)
    L.append('    vcheck!("C20|%s|memory_agrees", bad & T_MEM == 0);' % tag)
    L.append('    vcheck!("C20|%s|vector_registers_agree", bad & T_XMM == 0);' % tag)
    L.append('    vcheck!("C20|%s|trace_and_counters_agree", bad & T_TRACE == 0);' % tag)
    L.append('    vreach!("C20|%s|reach_differing_unwritten_register", written != 0x1ffff && ra.is_ok());' % tag)
    L.append("    std::mem::forget(a);")
    L.append("    std::mem::forget(b);")
    L.append("}\n")
    return "\n".join(L)


def unimpl_harness(mn, idx, part):
    hid = "gi_unimpl_%s_%d" % (mn, idx)
    lines = []
    lines.append('// @harness id=%s props=C19 crash=C19 tier=quick group=unimplemented timeout=1200 desc="unimplemented forms of %s are reported as errors: %s"' % (
        hid, mn, " ".join("%s:%s" % (f["code"], s) for f, s, _d in part)))
    lines.append(STUBS.rstrip("\n"))
    lines.append("pub(crate) fn %s() {" % hid)
    lines.append("    let mut f = crate::verif::ib::NO_FIELDS;")
    lines.append("    f.ip = kani::any::<u64>();")
    lines.append("    let (mut ax, pre) = mk_machine(&f, true, true, 0);")
    for form, shape, d in part:
        lines.append("    let mut g = %s;" % fields_literal(d))
        lines.append("    g.ip = f.ip;")
        lines.append("    let r = ax.%s(rebuild(&g));" % mn)
        lines.append('    vcheck!("C19|%s:%s|unimplemented_form_reported_as_error", r.is_err());' % (form["code"], shape))
    lines.append('    vreach!("C19|unimpl_%s_%d|reach");' % (mn, idx))
    lines.append("    std::mem::forget(ax);")
    lines.append("}\n")
    return "\n".join(lines)
