#!/usr/bin/env python3
"""Validation of the reference semantics (harness/x86ref.rs) against the host x86-64 CPU.

This is NOT one of the property checks and decides nothing about /repo: it validates the
*oracle* the solver-based checks compare the emulator with. Sampling (corner + random values),
native. For every implemented data-class form with a register-only witness encoding it runs
the witness bytes on the real CPU (generated stub in an RWX mapping, forked child; #DE seen as
SIGFPE) and evaluates x86ref::exec on the same inputs (native Rust binary built from the
scratch copy), then compares every GPR, the architecture-defined flags and fault-vs-completion.

usage: python3 lib/cpu_validate.py [--per-form N] [--seed S]   -> oracle_validation/cpu_validation.json
"""
import argparse
import ctypes
import json
import mmap
import os
import random
import signal
import struct
import subprocess
import sys
import time

sys.path.insert(0, os.path.dirname(os.path.abspath(__file__)))
import driver  # noqa: E402
import gen_insn  # noqa: E402
import insn  # noqa: E402

HWNUM = {1: 0, 2: 3, 3: 1, 4: 2, 5: 6, 6: 7, 7: 4, 8: 5, 9: 8, 10: 9, 11: 10, 12: 11, 13: 12, 14: 13, 15: 14, 16: 15}
STATUS = 0x8D5
DATA_OFF = 0x1000
IN_REGS, IN_FLAGS, OUT_REGS, OUT_FLAGS, SAVE_RSP, PROGRESS = 0x000, 0x100, 0x200, 0x300, 0x308, 0x310

REFEXEC_BIN = r'''
#[cfg(not(ax_verif))]
fn main() {}
#[cfg(ax_verif)]
fn main() {
    use std::io::BufRead;
    let stdin = std::io::stdin();
    for line in stdin.lock().lines() {
        println!("{}", ax_x86::verif::refexec::refexec_line(&line.unwrap()));
    }
}
'''


def riprel(op, hwreg, code_len_after, target_off):
    """REX.W op /r with a RIP-relative operand; code_len_after = offset of the end of this instruction."""
    rex = 0x48 | (0x04 if hwreg >= 8 else 0)
    modrm = 0x05 | ((hwreg & 7) << 3)
    disp = (DATA_OFF + target_off) - code_len_after
    return bytes([rex, op, modrm]) + struct.pack("<i", disp)


def build_stub(test_bytes):
    c = bytearray()
    c += bytes([0x53, 0x55, 0x41, 0x54, 0x41, 0x55, 0x41, 0x56, 0x41, 0x57])
    c += riprel(0x89, 4, len(c) + 7, SAVE_RSP)                     # mov [rip+save_rsp], rsp
    disp = (DATA_OFF + IN_FLAGS) - (len(c) + 6)
    c += bytes([0xFF, 0x35]) + struct.pack("<i", disp)             # push qword [rip+in_flags]
    c += bytes([0x9D])                                             # popfq
    for mi in range(1, 17):
        if mi == 7:
            continue
        c += riprel(0x8B, HWNUM[mi], len(c) + 7, IN_REGS + 8 * (mi - 1))
    c += test_bytes
    for mi in range(1, 17):
        if mi == 7:
            continue
        c += riprel(0x89, HWNUM[mi], len(c) + 7, OUT_REGS + 8 * (mi - 1))
    c += bytes([0x9C, 0x58])                                       # pushfq ; pop rax
    c += riprel(0x89, 0, len(c) + 7, OUT_FLAGS)
    c += riprel(0x8B, 4, len(c) + 7, SAVE_RSP)                     # mov rsp, [rip+save_rsp]
    c += bytes([0x41, 0x5F, 0x41, 0x5E, 0x41, 0x5D, 0x41, 0x5C, 0x5D, 0x5B, 0xC3])
    assert len(c) < DATA_OFF
    return bytes(c)


CORNERS = [0, 1, 2, 0x7f, 0x80, 0xff, 0x100, 0x7fff, 0x8000, 0xffff, 0x10000, 0x7fffffff, 0x80000000, 0xffffffff,
           0x100000000, 0x7fffffffffffffff, 0x8000000000000000, 0xffffffffffffffff, 0xfffffffffffffffe, 0x0123456789abcdef]


def rand_val(rng):
    k = rng.random()
    if k < 0.45:
        return rng.choice(CORNERS)
    if k < 0.6:
        return rng.getrandbits(8)
    if k < 0.75:
        return rng.getrandbits(32)
    return rng.getrandbits(64)


def run_cpu(tests):
    """tests: [(bytes, regs[17], flags)] -> [None | ('ok', regs, flags) | ('fault', signo)]. One forked child
    runs as many tests as it can; a fault kills it and the parent continues after the faulting test."""
    mm = mmap.mmap(-1, 0x3000, flags=mmap.MAP_SHARED | mmap.MAP_ANONYMOUS,
                   prot=mmap.PROT_READ | mmap.PROT_WRITE | mmap.PROT_EXEC)
    res_mm = mmap.mmap(-1, max(1, len(tests)) * 17 * 8 + 64, flags=mmap.MAP_SHARED | mmap.MAP_ANONYMOUS,
                       prot=mmap.PROT_READ | mmap.PROT_WRITE)
    addr = ctypes.addressof(ctypes.c_char.from_buffer(mm))
    fn = ctypes.CFUNCTYPE(None)(addr)
    out = [None] * len(tests)
    start = 0
    while start < len(tests):
        res_mm.seek(0)
        res_mm.write(struct.pack("<q", start - 1))
        pid = os.fork()
        if pid == 0:
            try:
                for i in range(start, len(tests)):
                    b, regs, flags = tests[i]
                    stub = build_stub(b)
                    mm.seek(0)
                    mm.write(stub)
                    mm.seek(DATA_OFF + IN_REGS)
                    mm.write(struct.pack("<16Q", *regs[1:17]))
                    mm.seek(DATA_OFF + IN_FLAGS)
                    mm.write(struct.pack("<Q", flags))
                    res_mm.seek(8)
                    res_mm.write(struct.pack("<q", i))  # in flight
                    fn()
                    mm.seek(DATA_OFF + OUT_REGS)
                    o = mm.read(16 * 8)
                    mm.seek(DATA_OFF + OUT_FLAGS)
                    fl = mm.read(8)
                    res_mm.seek(64 + i * 17 * 8)
                    res_mm.write(o + fl)
                    res_mm.seek(0)
                    res_mm.write(struct.pack("<q", i))  # done
            finally:
                os._exit(0)
        _pid, status = os.waitpid(pid, 0)
        res_mm.seek(0)
        done = struct.unpack("<q", res_mm.read(8))[0]
        for i in range(start, done + 1):
            res_mm.seek(64 + i * 17 * 8)
            raw = res_mm.read(17 * 8)
            vals = struct.unpack("<17Q", raw)
            out[i] = ("ok", list(vals[:16]), vals[16])
        if os.WIFSIGNALED(status):
            nxt = done + 1
            if nxt < len(tests):
                out[nxt] = ("fault", os.WTERMSIG(status))
            start = nxt + 1
        else:
            start = done + 1
            if done + 1 < len(tests) and not os.WIFSIGNALED(status):
                break
    return out


def main():
    ap = argparse.ArgumentParser()
    ap.add_argument("--per-form", type=int, default=60)
    ap.add_argument("--seed", type=int, default=int(os.environ.get("VERIF_SEED", "0") or 0))
    args = ap.parse_args()
    rng = random.Random(args.seed)
    t0 = time.time()
    sc = driver.Scratch()
    try:
        vdir = os.path.join(sc.dir, "src", "verif")
        with open(os.path.join(vdir, "refexec.rs"), "w") as fh:
            fh.write(open(os.path.join(driver.VERIF, "lib", "refexec.rs.tmpl")).read())
        sc._refresh()
        with open(os.path.join(sc.dir, "src", "bin", "verif_refexec.rs"), "w") as fh:
            fh.write(REFEXEC_BIN)
        inv = insn.inventory()
        items, cand = [], []
        for form in inv:
            if not form["implemented"]:
                continue
            cls = gen_insn.classify(form["code"])
            if cls["klass"] != "data" or cls["op"] in ("Other", "Cpuid", "MovdToXmm", "MovdFromXmm", "Movups", "Xorps"):
                continue
            enc = insn.Enc(form["opcode"])
            for shape, b in insn.witnesses(form, args.seed, thorough=True):
                if shape in ("reg", "regalias", "reghi", "regx", "regrex", "plain") or cls["op"] == "Lea":
                    items.append(("%s:%s" % (form["code"], shape), b))
                    cand.append((form, cls, enc, shape, b))
        br = insn.bridge(sc, items)
        binp = sc.build_native(binname="verif_refexec")
        summary = {"forms": 0, "witnesses": 0, "tests": 0, "disagreements": [], "skipped": []}
        all_tests, meta = [], []
        seen_forms = set()
        for form, cls, enc, shape, b in cand:
            d = br["%s:%s" % (form["code"], shape)]
            if d.get("code") != form["code"] or not d.get("consumed_all"):
                continue
            kinds = d["k"][:d["op_count"]]
            named = set(d["r"]) | {d["base"], d["index"]}
            if any(r in named for r in ("RSP", "ESP", "SP", "SPL", "RIP", "EIP")):
                continue
            if "Memory" in kinds and cls["op"] != "Lea":
                continue
            if d["base"] in ("RIP", "EIP"):
                continue
            seen_forms.add(form["code"])
            summary["witnesses"] += 1
            for n in range(args.per_form):
                bb = bytearray(b)
                nimm = sum(enc.imms)
                if nimm:
                    fill = [rng.choice([0, 1, 2, 7, 8, 15, 16, 31, 32, 33, 63, 64, 65, 0x7f, 0x80, 0xff, rng.getrandbits(8)])
                            for _ in range(nimm)]
                    bb[len(bb) - nimm:] = bytes(fill)
                regs = [0] + [rand_val(rng) for _ in range(16)]
                if cls["op"] in ("Shl", "Shr") and rng.random() < 0.5:
                    regs[3] = rng.choice([0, 1, 7, 8, 9, 15, 16, 17, 31, 32, 33, 63, 64, 65, 128, 255])
                flags = 0x202 | (rng.getrandbits(12) & STATUS)
                all_tests.append((bytes(bb), regs, flags))
                meta.append((form["code"], shape, cls))
        summary["forms"] = len(seen_forms)
        summary["tests"] = len(all_tests)
        cpu = run_cpu(all_tests)
        lines = []
        for i, (bb, regs, flags) in enumerate(all_tests):
            code, shape, cls = meta[i]
            lines.append("%d %s %s %d %d %d %x %s" % (i, bb.hex(), cls["op"], cls["w"], cls["sw"], cls["cc"], flags,
                                                      " ".join("%x" % r for r in regs)))
        p = subprocess.run([binp], input="\n".join(lines) + "\n", capture_output=True, text=True)
        ref = {}
        for l in p.stdout.split("\n"):
            if l.startswith("{"):
                o = json.loads(l)
                if "id" in o:
                    ref[int(o["id"])] = o
        agree = 0
        for i, (bb, regs, flags) in enumerate(all_tests):
            code, shape, cls = meta[i]
            c, r = cpu[i], ref.get(i)
            if c is None or r is None or "error" in r or r.get("skip"):
                summary["skipped"].append("%s:%s" % (code, shape))
                continue
            what = None
            if c[0] == "fault":
                if not r["fault"]:
                    what = "cpu faulted (signal %d), reference completes" % c[1]
            elif r["fault"]:
                what = "reference faults, cpu completes"
            else:
                rregs = [int(x, 16) for x in r["regs"]]
                for mi in range(1, 17):
                    if mi == 7:
                        continue
                    if c[1][mi - 1] != rregs[mi]:
                        what = "register %d: cpu %x reference %x" % (mi, c[1][mi - 1], rregs[mi])
                        break
                if what is None:
                    dmask = int(r["def"], 16)
                    umask = int(r["undef"], 16)
                    if (c[2] ^ int(r["rflags"], 16)) & dmask:
                        what = "defined flags: cpu %x reference %x mask %x" % (c[2], int(r["rflags"], 16), dmask)
                    elif (c[2] ^ flags) & STATUS & ~(dmask | umask):
                        what = "cpu changed a flag the reference calls unaffected: in %x out %x" % (flags, c[2])
            if what:
                if len(summary["disagreements"]) < 200:
                    summary["disagreements"].append({"form": code, "shape": shape, "bytes": bb.hex(), "flags_in": "%x" % flags,
                                                     "regs_in": ["%x" % x for x in regs[1:]], "what": what})
            else:
                agree += 1
        summary["agree"] = agree
        summary["skipped"] = sorted(set(summary["skipped"]))[:50]
        summary["seed"] = args.seed
        summary["wall_s"] = round(time.time() - t0, 1)
        summary["cpu"] = open("/proc/cpuinfo").read().split("model name")[1].split("\n")[0].strip(": \t") if os.path.exists("/proc/cpuinfo") else ""
        os.makedirs(os.path.join(driver.VERIF, "oracle_validation"), exist_ok=True)
        json.dump(summary, open(os.path.join(driver.VERIF, "oracle_validation", "cpu_validation.json"), "w"), indent=1)
        print("forms %d witnesses %d tests %d agree %d disagreements %d (%.0fs)" % (
            summary["forms"], summary["witnesses"], summary["tests"], agree, len(summary["disagreements"]), summary["wall_s"]))
        for d in summary["disagreements"][:25]:
            print("  ", d["form"], d["shape"], d["bytes"], d["what"])
        return 1 if summary["disagreements"] else 0
    finally:
        sc.cleanup()


if __name__ == "__main__":
    sys.exit(main())
