"""Per-property metadata (bounds, trusted base) and generator dispatch."""

COMMON_TRUSTED = [
    "Kani 0.68 front end (MIR -> goto), CBMC 6.11 symbolic execution, CaDiCaL",
    "H1: std HashMap/HashSet replaced by a model map under cfg(kani) (src/helpers/vmap.rs)",
    "H2: fatal_error!/assert_fatal!/opcode_unimplemented! return Err (wasm32 behaviour)",
    "H3: debug_log! empty under cfg(kani) (as in release builds)",
    "stub: alloc::fmt::format -> String::new() (arguments still evaluated)",
]
COMMON_ASSUMPTIONS = [
    "arithmetic primitives of rustc/CBMC mean what the Rust reference says (shared by code and oracle)",
    "debug-profile semantics (overflow checks on); counterexamples are replayed natively before being reported",
    "verdicts hold for every input within the stated bounds and say nothing outside them",
]

PROPS = {
    "C07": {
        "bounds": "one API call from an arbitrary register file satisfying the invariant (17 64-bit keys present): "
                  "all 86 register ids x all 2^64 prior contents of all 17 registers x all 2^64 written values x "
                  "widths 8/16/32/64/128; histories of any length follow by induction (post-state again satisfies the invariant); "
                  "base case: Axecutor::empty() with arbitrary RNG draws; unwind 90 (lazy_static table construction, 86-slot model map)",
        "outside": "std HashMap itself (H1); wasm BigInt conversion of the 128-bit accessors",
        "trusted": [],
        "assumptions": ["SupportedRegister discriminants 0..=85 are exactly the 86 variants (checked by c07_base for the 17 64-bit keys)"],
    },
}


def generate(prop, tier, seed):
    """Generated harness files {filename: text} needed for `prop`."""
    return {}
