"""Per-property metadata (bounds, trusted base) and generator dispatch."""

COMMON_TRUSTED = [
    "Kani 0.68 front end (MIR -> goto), CBMC 6.11 symbolic execution, CaDiCaL",
    "H1: std HashMap/HashSet replaced by a model map under cfg(kani) (src/helpers/vmap.rs)",
    "H2: fatal_error!/assert_fatal!/opcode_unimplemented! return Err (wasm32 behaviour)",
    "H3: debug_log! empty under cfg(kani) (as in release builds)",
    "stub: alloc::fmt::format -> String::new() (arguments still evaluated)",
]
COMMON_ASSUMPTIONS = [
    "arithmetic primitives of rustc/CBMC mean what the Rust reference says (shared by code and oracle)",
    "debug-profile semantics (overflow checks on); counterexamples are replayed natively before being reported",
    "verdicts hold for every input within the stated bounds and say nothing outside them",
]

PROPS = {
    "C11": {},
    "C01": {}, "C02": {}, "C03": {}, "C04": {}, "C05": {}, "C06": {}, "C19": {}, "C20": {},
    "C07": {
        "bounds": "one API call from an arbitrary register file satisfying the invariant (17 64-bit keys present): "
                  "all 86 register ids x all 2^64 prior contents of all 17 registers x all 2^64 written values x "
                  "widths 8/16/32/64/128; histories of any length follow by induction (post-state again satisfies the invariant); "
                  "base case: Axecutor::empty() with arbitrary RNG draws; unwind 90 (lazy_static table construction, 86-slot model map)",
        "outside": "std HashMap itself (H1); wasm BigInt conversion of the 128-bit accessors",
        "trusted": [],
        "assumptions": ["SupportedRegister discriminants 0..=85 are exactly the 86 variants (checked by c07_base for the 17 64-bit keys)"],
    },
    "C08": {
        "bounds": "one memory-API call from an arbitrary layout of two disjoint RW areas (8 and 5 bytes; starts anywhere in the 64-bit "
                  "space incl. 0 and ending exactly at 2^64; arbitrary contents): all 2^64 addresses x all 2^64 lengths for reads, data of "
                  "0..=16 arbitrary bytes for writes, all five typed widths with arbitrary values; histories follow by induction over the "
                  "byte map; unwind 20; collect_mem_error_hints is NOT stubbed (its arithmetic is part of the claim)",
        "outside": "layouts with more than two areas or other area sizes (the code treats areas uniformly: a linear find over the list); "
                   "zero-length accesses are only required not to crash; guest loads/stores are covered by the C01 memory-shape harnesses",
        "trusted": ["stub: str::to_lowercase -> String::new() (message text only)"],
        "assumptions": ["area list invariant M: areas pairwise disjoint, length == data.len(), start + length <= 2^64 (established by C10)"],
    },
    "C09": {
        "bounds": "API level: arbitrary layout of two disjoint areas (8 and 5 bytes, arbitrary starts and contents) with all 8x8 permission "
                  "masks; one read (any address, any length), write (1..=8 bytes, any address) or fetch (any address); mem_prot followed by "
                  "read/write/fetch; constructor Axecutor::new with 4 arbitrary code bytes at any start. Instruction level: every memory-"
                  "touching instruction class once with an arbitrary mask on its operand area (insn harnesses tagged C09)",
        "outside": "ELF segment flags (C15); iced's decoder after the fetch (decode_at = fetch + Decoder)",
        "trusted": ["stub: collect_mem_error_hints -> fixed error (message text only)"],
        "assumptions": ["area list invariant M (C10)"],
    },
    "C10": {
        "bounds": "one area-management call from an arbitrary list of 0..=3 areas (8, 5, 3 bytes; arbitrary disjoint starts incl. ending at 2^64; "
                  "arbitrary contents and masks) satisfying M: mem_init_area_named (data 0..=16 bytes, any start), mem_init_zero(_named) "
                  "(length <= 16), mem_resize_section (any start, new <= 16), mem_prot (any start, any u32 mask), mem_init_zero_anywhere / "
                  "mem_init_anywhere (length <= 8, incl. 0), init_stack (length <= 16). Termination of the retry loops is the unwinding "
                  "assertion with a bound derived from the code (at most 16 blocked candidates for lengths >= 1; 51 doublings for init_stack). "
                  "Histories of any length follow by induction on M",
        "outside": "more than 3 pre-existing areas; lengths above 16 (allocation size is the caller's request); ELF load and brk reach these "
                   "same functions (C13, C15)",
        "trusted": [],
        "assumptions": [],
    },
}


INSN_PROPS = {"C01", "C02", "C03", "C04", "C05", "C06", "C08", "C09", "C19", "C20"}


def generate(sc, prop, tier, seed):
    """Generated harness files needed for `prop`: ({filename: text}, meta)."""
    if prop in INSN_PROPS:
        import gen_insn
        return gen_insn.generate(sc, tier, seed)
    return {}, {}
