"""Per-property metadata (bounds, trusted base) and generator dispatch."""

COMMON_TRUSTED = [
    "Kani 0.68 front end (MIR -> goto), CBMC 6.11 symbolic execution, CaDiCaL",
    "H1: std HashMap/HashSet replaced by a model map under cfg(kani) (src/helpers/vmap.rs)",
    "H2: fatal_error!/assert_fatal!/opcode_unimplemented! return Err (wasm32 behaviour)",
    "H3: debug_log! empty under cfg(kani) (as in release builds)",
    "stub: alloc::fmt::format -> String::new() (arguments still evaluated)",
]
COMMON_ASSUMPTIONS = [
    "arithmetic primitives of rustc/CBMC mean what the Rust reference says (shared by code and oracle)",
    "debug-profile semantics (overflow checks on); counterexamples are replayed natively before being reported",
    "verdicts hold for every input within the stated bounds and say nothing outside them",
]

INSN_TRUSTED = ['iced-x86 decoder: bridged natively (witness bytes -> fields -> rebuilt Instruction == decoded Instruction), not executed by the solver', 'reference semantics /verif/harness/x86ref.rs (written from the Intel SDM; compared natively with the host CPU by lib/cpu_validate.py: 240 forms, 843 encodings, 126 450 executions, 0 disagreements on registers and defined flags, see /verif/oracle_validation/cpu_validation.json)', 'stubs: collect_mem_error_hints -> fixed error; Display/Debug of iced Instruction/Code/Mnemonic/Register/OpKind -> Ok(())']

INSN_BOUNDS = ("one handler call (mnemonic_<m>) per implemented form x shape from a fully symbolic machine: all 16 GPRs + RIP (2^64 each), "
               "rflags (bits 0..=21 arbitrary; the reserved-zero bits 22..=63 are zero), fs, gs, 2 XMM registers symbolic (others distinct constants) where the form names one, immediates / "
               "displacement / branch target symbolic over everything the encoding can carry; memory forms: one area D of 32 symbolic bytes at "
               "0x40000000 with an arbitrary permission mask out of the 6 CPU-realisable ones (no write-only masks), address = symbolic base register + symbolic disp8 (inside, straddling, outside D). "
               "Shapes: quick = mod=11 register shape (8- and 64-bit widths of each operand pattern) + [base+disp8] shape (widest width, one operand pattern per mnemonic); thorough "
               "adds the register shape at all widths, dest==src alias, AH..BH, REX registers, SPL..DIL, and the [base+disp8] shape at the 8-bit, 64-bit and widest width of every "
               "operand pattern (the omitted width x shape pairs are listed under coverage.generator.mem_widths_not_generated). Register numbers rotate with VERIF_SEED. unwind 90")
INSN_OUTSIDE = ("encodings the witness generator does not produce (other ModRM/SIB addressing shapes are C05's subject; prefixes such as LOCK/REP); "
                "forms not decodable in 64-bit mode (listed in the evidence); iced's decoder itself; 64-bit MUL/IMUL values share the 128-bit "
                "primitive with the implementation (operand routing, extension, hi/lo split and flags are checked, not the multiplier circuit) and are not decided with a memory operand; "
                "DIV/IDIV: decided for all inputs at 8 bits only (value, remainder, #DE); at 64 bits the #DE condition alone is decided for all inputs (reference without a divider); "
                "at 16/32/64 bits the value harnesses and the 16/32-bit #DE harness never finished (25 min cap) and are replaced, thorough tier only, register shape only, by a bounded "
                "variant whose divisor ranges over 10 boundary constants (0, 1, 2, 3, 10, 16, 2^w-1, 2^w-2, 2^(w-1), 2^(w-1)-1) with the dividend arbitrary - every other divisor at those widths is outside the claim "
                "(coverage.generator.skipped_heavy lists the pairs); AF is never compared")

PROPS = {
    "C01": {"bounds": INSN_BOUNDS + "; obligations: every GPR, every XMM register, every byte of D, RIP == next instruction, fs/gs untouched; "
                      "plus the inventory check that no form implemented on the pinned tree has become unimplemented",
            "outside": INSN_OUTSIDE, "trusted": INSN_TRUSTED, "assumptions": []},
    "C02": {"bounds": INSN_BOUNDS + "; obligations: flags in the architecture's defined set equal the reference for all 2^64 incoming rflags values "
                      "and all 256 shift counts; flags outside defined+undefined keep their previous value",
            "outside": INSN_OUTSIDE, "trusted": INSN_TRUSTED, "assumptions": []},
    "C03": {"bounds": INSN_BOUNDS + "; every implemented Jcc/JMP/CALL/RET/JRCXZ/JECXZ form: RIP' == (cond ? target : next) for all flag states, "
                      "targets next_ip + any rel8/rel32, any register / memory-indirect target",
            "outside": INSN_OUTSIDE, "trusted": INSN_TRUSTED, "assumptions": ["RET: the emulator's top-level-return rule (C11) is assumed not to trigger"]},
    "C04": {"bounds": INSN_BOUNDS + "; every implemented PUSH/POP/CALL/RET form with RSP anywhere (slot inside, straddling, outside D) and four "
                      "short programs mixing stack instructions with [RSP]-relative loads/stores, compared with the reference run in sequence",
            "outside": INSN_OUTSIDE, "trusted": INSN_TRUSTED, "assumptions": []},
    "C05": {"bounds": "instruction_operand()+mem_addr() and LEA r16/r32/r64 (the MOV load/store probes over all classes run out of memory at 12 GB and are skipped; the bytes touched are tied to the address for [base+disp8] by the C01 memory-shape harnesses) with the Instruction's memory fields symbolic over: "
                      "base in {none, 16 GPR64, RIP} or under 0x67 {none, 16 GPR32, EIP}; index in {none, 15 GPRs}; scale 1/2/4/8; displacement "
                      "0 / sext8 / sext32 / 64-bit absolute; segment prefix in {none, ES, CS, SS, DS, FS, GS}; all register values, fs, gs symbolic",
            "outside": "that these classes are exactly what iced delivers is bridged natively on witness encodings, not proved; 16-bit addressing does not exist in 64-bit mode",
            "trusted": INSN_TRUSTED, "assumptions": []},
    "C06": {"bounds": INSN_BOUNDS + "; obligations: error iff the reference faults (#DE incl. quotient overflow for all widths, unmapped / straddling / "
                      "permission-denied access, misaligned XORPS m128), and no panic/overflow/unwrap failure anywhere in the handler",
            "outside": INSN_OUTSIDE, "trusted": INSN_TRUSTED, "assumptions": []},
    "C19": {"bounds": INSN_BOUNDS + "; additionally every UNIMPLEMENTED form with a 64-bit-mode encoding must return Err; crash-freedom = every Kani/CBMC "
                      "check (panic, assert, unwrap/expect, arithmetic overflow, index, pointer) in code reachable from the handler; step()'s own "
                      "prefix (decode failure, unsupported mnemonic) is covered by c11_step",
            "outside": INSN_OUTSIDE + "; byte strings iced decodes to mnemonics outside the 65 supported ones are rejected in step() by TryFrom<Mnemonic> (run concretely in c11_step only for NOP)",
            "trusted": INSN_TRUSTED, "assumptions": []},
    "C20": {"bounds": "two-run self-composition per mnemonic (one register-shape and one memory-shape form each): machine B equals machine A on every "
                      "explicit input (a symbolic set of written registers containing every register the instruction names, flags, segment bases, "
                      "memory, instruction) and holds independent arbitrary values in all other registers; same handler on both; outcome kind, written "
                      "registers, flags, memory, XMM, trace/call-stack/counters must agree. Model-map iteration starts at an arbitrary rotation (H1)",
            "outside": "error *texts* (formatter stubbed); cross-process effects other than RNG draws and hash order (the code reads no clock/env); whole programs (follows per step)",
            "trusted": INSN_TRUSTED, "assumptions": ["pipe descriptor numbers are excluded by the property"]},
    "C18": {"bounds": "content: every implemented JMP/Jcc/JRCXZ/JECXZ/CALL/RET form (the generated control-transfer harnesses) from a pre-state whose trace ends "
                      "in an arbitrary entry (any variant, source, target, count; level within +-1000) and whose call stack has 0 or 1 arbitrary entries, compared "
                      "with an independent tracer (add_trace depends only on the last entry, so longer traces follow by induction); rendering totality is NOT decided (c18_render runs out of memory; "
                      "it found the negative-level abort before the repair, see known_findings.json)",
            "outside": "the rendered text; to_string(); nesting deeper than +-1000 (the i16 level counter overflows at 32767 nested calls); call stacks longer than 1 entry",
            "trusted": INSN_TRUSTED, "assumptions": []},
    "C11": {"bounds": "one real step() from arbitrary loop-control state (RIP, code_end_addr, finished, executed count, Option<limit>, stack_top all symbolic) with the "
                      "decoder replaced by 'fails or delivers an instruction of any length 1..=15' and the dispatch by 'no effect / write any RIP / ordinary error / "
                      "normal-finish error'; limit exactness by induction on the count; top-level RET rule on the real init_stack + CALL + RET handlers (depth 0 and 1). "
                      "execute() == loop of step() is NOT decided (nested async state machines exhaust >30 GB)",
            "outside": "execute(); hooks (C12); the real decoder; register state other than RIP/RAX is absent from the machine (step() touches only RIP)",
            "trusted": ["stubs: decode_at, switch_instruction_mnemonic (nondeterministic stand-ins), trace(), call_stack() renderers"], "assumptions": ["executed count < 2^64-8"]},
    "C07": {
        "bounds": "one API call from an arbitrary register file satisfying the invariant (17 64-bit keys present): "
                  "all 86 register ids x all 2^64 prior contents of all 17 registers x all 2^64 written values x "
                  "widths 8/16/32/64/128; histories of any length follow by induction (post-state again satisfies the invariant); "
                  "base case: Axecutor::empty() with arbitrary RNG draws; unwind 90 (lazy_static table construction, 86-slot model map)",
        "outside": "std HashMap itself (H1); wasm BigInt conversion of the 128-bit accessors",
        "trusted": [],
        "assumptions": ["SupportedRegister discriminants 0..=85 are exactly the 86 variants (checked by c07_base for the 17 64-bit keys)"],
    },
    "C08": {
        "bounds": "one memory-API call from an arbitrary layout of two disjoint RW areas (8 and 5 bytes; starts anywhere in the 64-bit "
                  "space incl. 0 and ending exactly at 2^64; arbitrary contents): all 2^64 addresses x all 2^64 lengths for reads, data of "
                  "0..=16 arbitrary bytes for writes, all five typed widths with arbitrary values; histories follow by induction over the "
                  "byte map; unwind 20; collect_mem_error_hints is NOT stubbed (its arithmetic is part of the claim)",
        "outside": "layouts with more than two areas or other area sizes (the code treats areas uniformly: a linear find over the list); "
                   "zero-length accesses are only required not to crash; guest loads/stores are covered by the C01 memory-shape harnesses",
        "trusted": ["stub: str::to_lowercase -> String::new() (message text only)"],
        "assumptions": ["area list invariant M: areas pairwise disjoint, length == data.len(), start + length <= 2^64 (established by C10)"],
    },
    "C09": {
        "bounds": "API level: arbitrary layout of two disjoint areas (8 and 5 bytes, arbitrary starts and contents) with all 8x8 permission "
                  "masks; one read (any address, any length), write (1..=8 bytes, any address) or fetch (any address); mem_prot followed by "
                  "read/write/fetch. Instruction level: every memory-"
                  "touching instruction class once with an arbitrary mask on its operand area (insn harnesses tagged C09)",
        "outside": "Axecutor::new itself (does not finish: 20 min / 40 GB), its mem_prot(R|X) step is covered; ELF segment flags (C15); iced's decoder after the fetch (decode_at = fetch + Decoder)",
        "trusted": ["stub: collect_mem_error_hints -> fixed error (message text only)"],
        "assumptions": ["area list invariant M (C10)"],
    },
    "C10": {
        "bounds": "one area-management call from an arbitrary list of 0..=3 areas (8, 5, 3 bytes; arbitrary disjoint starts incl. ending at 2^64; "
                  "arbitrary contents and masks) satisfying M: mem_init_area_named (data 0..=16 bytes, any start), mem_init_zero(_named) "
                  "(length <= 16), mem_resize_section (any start, new <= 16), mem_prot (any start, any u32 mask), mem_init_zero_anywhere / "
                  "mem_init_anywhere (length <= 8, incl. 0), init_stack (length <= 16). Termination of the retry loops is the unwinding "
                  "assertion with a bound derived from the code (at most 16 blocked candidates for lengths >= 1; 51 doublings for init_stack). "
                  "Histories of any length follow by induction on M",
        "outside": "more than 3 pre-existing areas; lengths above 16 (allocation size is the caller's request); ELF load and brk reach these "
                   "same functions (C13, C15)",
        "trusted": [],
        "assumptions": [],
    },
}


# harnesses that exist in the sources but are not run, with the measured reason
SKIP_HARNESSES = {
    "c05_mov_load": "solver out of memory at 12 GB (symbolic base x index x scale x segment together with a symbolic-offset memory access)",
    "c05_mov_store": "same as c05_mov_load",
    "gi_imul_r_rm_imm_w32_reg": "IMUL r32, r/m32, imm8/imm32 in the plain register shape ran into the 25 min cap (independent 32x32 multiplier, two forms); the same two forms "
                                "are decided in the regalias/reghi/regrex/regx shapes (7-13 min each)",
    "gd_Imul_r64_rm64_imm32_mem": "two runs of a 64-bit multiplier with a symbolic memory operand ran into the 25 min cap; the register-shape twin of IMUL (gd_Imul_*_reg) is decided",
    "gd_Idiv_rm64_reg": "two 128-bit divider circuits (two runs of IDIV r/m64) exceed 25 min; determinism of the 8/16/32-bit forms follows from their C01 obligations",
    "gd_Idiv_rm64_mem": "same as gd_Idiv_rm64_reg",
    "gd_Div_rm64_reg": "same as gd_Idiv_rm64_reg",
    "gd_Div_rm64_mem": "same as gd_Idiv_rm64_reg",
    "c18_render": "solver out of memory at 12 GB / cbmc crash (str::repeat with a symbolic count); an earlier configuration of this harness "
                  "found the capacity-overflow abort for negative nesting levels that commit bb81d1c repairs",
}

INSN_PROPS = {"C01", "C02", "C03", "C04", "C05", "C06", "C08", "C09", "C18", "C19", "C20"}


def generate(sc, prop, tier, seed):
    """Generated harness files needed for `prop`: ({filename: text}, meta)."""
    if prop in INSN_PROPS:
        import gen_insn
        return gen_insn.generate(sc, tier, seed)
    return {}, {}
