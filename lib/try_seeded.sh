#!/bin/bash
# try_seeded.sh <seeded id> <property> [harness,harness...]: apply a seeded change to /repo, run the check, undo.
id=$1; prop=$2; only=${3:-}
cd /repo && git apply /verif/seeded/$id/patch.diff || { echo "patch does not apply"; exit 3; }
cd /verif && if [ -n "$only" ]; then ./check $prop --only $only; else ./check $prop; fi; rc=$?
git -C /repo checkout -- . ; echo "exit=$rc"
